import itertools
from collections import Counter
from proj import *

def dump(s, hierarchy_only=False):
    d = {}
    for k, o in s.allobjects.items():
        rec = [type(o).__name__]
        if isinstance(o, model.Class):
            rec += [tuple(o.bases), tuple(b.fullName() if b else None for b in o.baseobjects), tuple(x.fullName() if not isinstance(x, str) else x for x in o.mro(True))]
        if not hierarchy_only:
            rec += [str(o.kind), o.docstring]
        d[k] = tuple(rec)
    return d

def perms(mods):
    # pkg first, then any order of children
    n = len(mods)
    for p in itertools.permutations(range(1, n)):
        yield (0,) + p

keys = list(DIMS)
fails6 = Counter(); ex6 = {}; fails7 = Counter(); ex7 = {}; n = 0; nsched = 0
for combo in itertools.product(*DIMS.values()):
    kw = dict(zip(keys, combo))
    if kw['reexp'] == 'none' and kw['local_def'] != 'none': continue
    if kw['local_def'] != 'none': continue   # known C02 finding region, skip here
    n += 1
    mods, exporter, newname = gen(**kw)
    base = None
    for order in perms(mods):
        nsched += 1
        try:
            s = build(mods, order)
        except Exception as e:
            fails6['EXC '+type(e).__name__] += 1; ex6.setdefault('EXC', (kw, order, repr(e))); continue
        d = dump(s, hierarchy_only=kw['cycle'])
        if base is None: base = d; base_order = order
        elif d != base:
            diff = {k for k in set(d) | set(base) if d.get(k) != base.get(k)}
            fails6['DIFF:'+kw['consumer']+':'+kw['reexp']+(':cycle' if kw['cycle'] else '')] += 1; ex6.setdefault('DIFF:'+kw['consumer']+':'+kw['reexp']+(':cycle' if kw['cycle'] else ''), (kw, base_order, order, sorted(diff)[:6]))
        # C07 oracle
        if exporter and kw['dup'] in ('none',):
            imported = not (kw['reexp']=='pkg_star' and kw['origin_all']=='without')
            moved = imported and (kw['origin_all'] != 'with')
            if not imported: continue
            new = f'{exporter}.{newname}'; old = 'pkg._impl.X'
            if moved:
                if new not in s.allobjects: fails7['notmoved'] += 1; ex7.setdefault('notmoved', (kw, order))
                if old in s.allobjects: fails7['stillold'] += 1; ex7.setdefault('stillold', (kw, order))
                if any(k.startswith(old + '.') for k in s.allobjects): fails7['oldmembers'] += 1; ex7.setdefault('oldmembers', (kw, order))
                try:
                    a = s.find_object(old); b_ = s.find_object(new)
                    if a is None or a is not b_: fails7['find_object'] += 1; ex7.setdefault('find_object', (kw, order, a, b_))
                except LookupError as e:
                    fails7['find_object_LE'] += 1; ex7.setdefault('find_object_LE', (kw, order, repr(e)))
                if kw['consumer'] != 'none':
                    u = s.allobjects['pkg.user']
                    r = u.resolveName('B')
                    if r is not s.allobjects.get(new): fails7['consumerB:'+kw['consumer']] += 1; ex7.setdefault('consumerB:'+kw['consumer'], (kw, order, r))
                    if kw['xkind'] == 'class':
                        U = s.allobjects['pkg.user.U']
                        if U.baseobjects != [s.allobjects.get(new)]: fails7['base:'+kw['consumer']] += 1; ex7.setdefault('base:'+kw['consumer'], (kw, order, U.baseobjects, U.bases))
            else:
                if old not in s.allobjects: fails7['moved_but_should_not'] += 1; ex7.setdefault('moved_but_should_not', (kw, order))
print('shapes', n, 'schedules', nsched)
print('C06', dict(fails6)); 
for k, v in ex6.items(): print('  ', k, v)
print('C07', dict(fails7))
for k, v in ex7.items(): print('  ', k, v)
