import ast, inspect
from pydoctor import model, astbuilder
from pydoctor.options import Options
from crosshair import realize
from crosshair.tracers import NoTracing
OPTS = Options.defaults(); OPTS.verbosity = -3
model.System(OPTS)

def build_fdef(npo, na, nd, va, nk, kmask, kw):
    names = iter('abcdefghij')
    posonly = [ast.arg(arg=next(names)) for _ in range(npo)]
    args = [ast.arg(arg=next(names)) for _ in range(na)]
    defaults = [ast.Constant(value=100+i) for i in range(nd)]
    vararg = ast.arg(arg='va') if va else None
    kwonly = [ast.arg(arg=next(names)) for _ in range(nk)]
    kw_defaults = [ast.Constant(value=200+i) if (kmask >> i) & 1 else None for i in range(nk)]
    kwarg = ast.arg(arg='kw') if kw else None
    a = ast.arguments(posonlyargs=posonly, args=args, vararg=vararg, kwonlyargs=kwonly, kw_defaults=kw_defaults, kwarg=kwarg, defaults=defaults)
    f = ast.FunctionDef(name='f', args=a, body=[ast.Pass()], decorator_list=[], returns=None, type_params=[])
    m = ast.Module(body=[f], type_ignores=[])
    return ast.fix_missing_locations(m)

def run(npo, na, nd, va, nk, kmask, kw):
    m = build_fdef(npo, na, nd, va, nk, kmask, kw)
    ns = {}
    exec(compile(m, '<h>', 'exec'), ns)
    want = inspect.signature(ns['f'])
    s = model.System(OPTS)
    mod = model.Module(s, 'm'); mod._py_string = ''; s._addUnprocessedModule(mod)
    s.unprocessed_modules.remove(mod); mod.state = model.ProcessingState.PROCESSING
    b = s.defaultBuilder(s)
    b.processModuleAST(build_fdef(npo, na, nd, va, nk, kmask, kw), mod)
    got = mod.contents['f'].signature
    if b._stack != [] : return False
    gp = list(got.parameters.values()); wp = list(want.parameters.values())
    if [(p.name, p.kind) for p in gp] != [(p.name, p.kind) for p in wp]: return False
    for g, w in zip(gp, wp):
        if (g.default is inspect.Parameter.empty) != (w.default is inspect.Parameter.empty): return False
        if w.default is not inspect.Parameter.empty and str(w.default) not in repr(g.default): return False
    # text round trip
    src = 'def f' + str(want) + ': pass'
    return True

def pick(x, lo, hi):
    for v in range(lo, hi + 1):
        if x == v:
            return v
    raise AssertionError('out of range')

def h(npo: int, na: int, nd: int, va: bool, nk: int, kmask: int, kw: bool) -> bool:
    """
    pre: 0 <= npo <= 2 and 0 <= na <= 2 and 0 <= nd <= npo + na and 0 <= nk <= 2 and 0 <= kmask <= 3 and (nk >= 2 or kmask <= 1) and (nk >= 1 or kmask == 0)
    post: _
    """
    npo = pick(npo, 0, 2); na = pick(na, 0, 2); nd = pick(nd, 0, 4); nk = pick(nk, 0, 2); kmask = pick(kmask, 0, 3)
    va = True if va else False
    kw = True if kw else False
    with NoTracing():
        return run(npo, na, nd, va, nk, kmask, kw)
