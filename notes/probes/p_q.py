import z3, re, time
import re._parser as sre_parse, re._constants as sre_c
from pydoctor import _configparser as C
RS = z3.ReSort(z3.StringSort())
ANY = z3.AllChar(RS)
def lit(c): return z3.Re(z3.StringVal(chr(c)))
WS = [9,10,11,12,13,32]  # ASCII \s (unicode spaces outside claim)
def cat(av):
    if av is sre_c.CATEGORY_SPACE: return z3.Union(*[lit(c) for c in WS])
    raise NotImplementedError(av)
def cls_items(items):
    neg=False; parts=[]
    for op, av in items:
        if op is sre_c.NEGATE: neg=True
        elif op is sre_c.LITERAL: parts.append(lit(av))
        elif op is sre_c.RANGE: parts.append(z3.Range(chr(av[0]), chr(av[1])))
        elif op is sre_c.CATEGORY: parts.append(cat(av))
        else: raise NotImplementedError(op)
    r = parts[0] if len(parts)==1 else z3.Union(*parts)
    if neg: r = z3.Intersect(ANY, z3.Complement(r))
    return r
def seq(xs):
    xs=[x for x in xs if x is not None]
    if not xs: return z3.Re(z3.StringVal(''))
    return xs[0] if len(xs)==1 else z3.Concat(*xs)
def conv(sub, flags, top=False):
    out=[]
    items=list(sub)
    for idx,(op, av) in enumerate(items):
        if op is sre_c.LITERAL: out.append(lit(av))
        elif op is sre_c.NOT_LITERAL: out.append(z3.Intersect(ANY, z3.Complement(lit(av))))
        elif op is sre_c.ANY:
            out.append(ANY if flags & re.DOTALL else z3.Intersect(ANY, z3.Complement(lit(10))))
        elif op is sre_c.IN: out.append(cls_items(av))
        elif op in (sre_c.MAX_REPEAT, sre_c.MIN_REPEAT):
            lo, hi, body = av
            b = conv(body, flags)
            if hi is sre_c.MAXREPEAT:
                r = z3.Star(b) if lo==0 else z3.Concat(*([b]*lo+[z3.Star(b)]))
            elif lo==0 and hi==1: r = z3.Option(b)
            else: r = z3.Loop(b, lo, hi)
            out.append(r)
        elif op is sre_c.SUBPATTERN:
            g, addf, delf, body = av
            out.append(conv(body, (flags|addf)&~delf))
        elif op is sre_c.AT:
            if av is sre_c.AT_BEGINNING and idx==0: continue
            if av is sre_c.AT_END and idx==len(items)-1:
                # '$' without MULTILINE: end or before a final newline
                out.append(z3.Option(lit(10))); continue
            if av is sre_c.AT_END_STRING and idx==len(items)-1: continue
            raise NotImplementedError((av, idx))
        elif op is sre_c.BRANCH:
            out.append(z3.Union(*[conv(b, flags) for b in av[1]]))
        else: raise NotImplementedError(op)
    return seq(out)
def compile_rx(rx):
    p = sre_parse.parse(rx.pattern, rx.flags)
    return conv(p, p.state.flags)

x = z3.String('x')
def included(a, b, name, extra=None):
    s = z3.Solver(); s.set('timeout', 60000)
    s.add(z3.InRe(x, a), z3.Not(z3.InRe(x, b)))
    if extra is not None: s.add(extra)
    t=time.time(); r=s.check()
    print(name, r, round(time.time()-t,2), (repr(s.model()[x].as_string()) if str(r)=='sat' else ''))

Q = compile_rx(C._QUOTED_STR_REGEX)
T = compile_rx(C._TRIPLE_QUOTED_STR_REGEX)
nonl = z3.Intersect(ANY, z3.Complement(lit(10)))
def simple(q):
    body = z3.Star(z3.Union(z3.Intersect(ANY, z3.Complement(z3.Union(lit(q), lit(92), lit(10)))), z3.Concat(lit(92), nonl)))
    return z3.Concat(lit(q), body, lit(q))
VALID = z3.Union(simple(34), simple(39))
included(VALID, Q, 'valid simple literal => detected')
included(Q, z3.Concat(VALID, z3.Option(lit(10))), 'detected => valid simple literal (+opt trailing nl)')
included(Q, z3.Concat(VALID, z3.Option(lit(10))), 'same, no raw newline inside', z3.Not(z3.Contains(x, z3.StringVal('\n'))))
# triple: every '"""' + body-without-quote-or-backslash (non-empty, not ending ws?) + '"""'
plain = z3.Intersect(ANY, z3.Complement(z3.Union(lit(34), lit(92))))
included(z3.Concat(z3.Re('"""'), z3.Plus(plain), z3.Re('"""')), T, 'triple dq with plain nonempty body => detected')
included(z3.Re('""""""'), T, 'empty triple => detected')
