from crosshair.tracers import NoTracing
import proj

def pick(x, lo, hi):
    for v in range(lo, hi + 1):
        if x == v:
            return v
    raise AssertionError

D = proj.DIMS
def h(nested: bool, reexp: int, origin_all: int, local_def: int, consumer: int, cycle: bool) -> bool:
    """
    pre: 0 <= reexp <= 4 and 0 <= origin_all <= 2 and 0 <= local_def <= 2 and 0 <= consumer <= 4
    pre: reexp != 0 or local_def == 0
    post: _
    """
    kw = dict(xkind='class', dup='same', nested=bool(nested), reexp=D['reexp'][pick(reexp,0,4)], origin_all=D['origin_all'][pick(origin_all,0,2)],
              local_def=D['local_def'][pick(local_def,0,2)], consumer=D['consumer'][pick(consumer,0,4)], cycle=bool(cycle))
    if kw['local_def'] == 'before':   # known finding region
        return True
    with NoTracing():
        mods, exporter, newname = proj.gen(**kw)
        s = proj.build(mods)
        return not proj.invariants(s)
