import ast, inspect, itertools, re
from collections import Counter
from pydoctor import model
from pydoctor.options import Options
from pydoctor.templatewriter.pages import format_signature
from pydoctor.stanutils import flatten_text, flatten
OPTS = Options.defaults(); OPTS.verbosity = -3

def mk(npo, na, nd, va, nk, kmask, kw, annmask, ret):
    names = iter('abcdefghij'); parts = []; i = 0
    pos = []
    def ann(n):
        nonlocal i
        a = ''
        if (annmask >> i) & 1: a = ': int' if i % 2 == 0 else ": 'List[int]'"
        i += 1
        return n + a
    allpos = [ann(next(names)) for _ in range(npo + na)]
    for j in range(len(allpos)):
        if j >= len(allpos) - nd:
            allpos[j] += (' = ' if ':' in allpos[j] else '=') + str(100 + j)
    parts += allpos[:npo]
    if npo: parts.append('/')
    parts += allpos[npo:]
    if va: parts.append(ann('*va'))
    elif nk: parts.append('*')
    for j in range(nk):
        p = ann(next(names))
        if (kmask >> j) & 1: p += (' = ' if ':' in p else '=') + str(200 + j)
        parts.append(p)
    if kw: parts.append(ann('**kw'))
    r = {0: '', 1: ' -> None', 2: ' -> int', 3: " -> 'Foo'"}[ret]
    return f"def f({', '.join(parts)}){r}: pass\n"

cnt = Counter(); ex = {}; total = 0
for npo, na in itertools.product(range(3), range(3)):
  for nd in range(npo + na + 1):
    for va, kw in itertools.product((0,1),(0,1)):
      for nk in range(3):
        for kmask in range(2 ** nk):
          nparams = npo + na + va + nk + kw
          for annmask in ({0, (1 << nparams) - 1, 0b0101 & ((1<<nparams)-1)}):
            for ret in range(4):
                src = mk(npo, na, nd, va, nk, kmask, kw, annmask, ret)
                total += 1
                ns = {}
                exec(compile("from __future__ import annotations\n" + src, '<s>', 'exec'), ns)
                want = inspect.signature(ns['f'])
                s = model.System(OPTS); b = s.systemBuilder(s)
                b.addModuleString(src, 'm'); b.buildModules()
                f = s.allobjects['m.f']
                text = flatten_text(format_signature(f))
                # expected text: want with string annotations unquoted and '-> None' dropped
                wtxt = str(want).replace("'", '')
                if ret == 1: wtxt = wtxt.replace(' -> None', '')
                norm = lambda t: re.sub(r'\s+', '', t)
                if norm(text) != norm(wtxt):
                    key = 'text'; cnt[key] += 1; ex.setdefault(key, (src, text, wtxt))
                try:
                    back = ast.parse(f"def f{text}: pass").body[0].args
                    orig = ast.parse(src).body[0].args
                    lay = lambda a: ([x.arg for x in a.posonlyargs], [x.arg for x in a.args], a.vararg and a.vararg.arg, [x.arg for x in a.kwonlyargs], [d is not None for d in a.kw_defaults], a.kwarg and a.kwarg.arg, len(a.defaults))
                    if lay(back) != lay(orig): cnt['layout'] += 1; ex.setdefault('layout', (src, text))
                except SyntaxError as e:
                    cnt['unparseable'] += 1; ex.setdefault('unparseable', (src, text))
print('total', total, dict(cnt))
for k, v in ex.items(): print(k, v)
