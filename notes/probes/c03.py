import itertools, inspect, types, ast
from collections import Counter
from pydoctor import model
from pydoctor.options import Options
OPTS = Options.defaults(); OPTS.verbosity = -3

DOCS = {'none': None, 'one': "'''Doc.'''", 'multi': "'''\n    Doc line.\n\n      indented\n    last\n    '''", 'lead': "'''\n\n    Doc.\n    '''"}
def ind(s, n=1): return ''.join('    '*n + l + '\n' for l in s.splitlines())
def fdef(name, deco, doc, is_async=False, cls=False):
    d = ''.join(f'@{x}\n' for x in deco)
    args = '(self)' if cls and 'staticmethod' not in deco else '()'
    if cls and 'classmethod' in deco: args='(cls)'
    body = (DOCS[doc] + '\n' if DOCS[doc] else '') + 'return 1'
    return d + ('async ' if is_async else '') + f'def {name}{args}:\n' + ind(body)
STMTS_CLASS = {
 'def': lambda n, doc: fdef(n, [], doc, cls=True),
 'async': lambda n, doc: fdef(n, [], doc, True, cls=True),
 'classmethod': lambda n, doc: fdef(n, ['classmethod'], doc, cls=True),
 'staticmethod': lambda n, doc: fdef(n, ['staticmethod'], doc, cls=True),
 'property': lambda n, doc: fdef(n, ['property'], doc, cls=True),
 'oldstatic': lambda n, doc: fdef(n, [], doc, cls=True).replace('(self)','()') + f'{n} = staticmethod({n})\n',
 'oldclass': lambda n, doc: fdef(n, [], doc, cls=True) + f'{n} = classmethod({n})\n',
 'assign': lambda n, doc: f'{n} = 1\n' + (DOCS['one'] + '\n' if doc != 'none' else ''),
 'annassign': lambda n, doc: f'{n}: int = 1\n' + (DOCS['one'] + '\n' if doc != 'none' else ''),
 'annonly': lambda n, doc: f'{n}: int\n',
 'class': lambda n, doc: f'class {n}:\n' + ind((DOCS[doc] + '\n' if DOCS[doc] else '') + 'pass'),
 'exc': lambda n, doc: f'class {n}(ValueError):\n' + ind((DOCS[doc] + '\n' if DOCS[doc] else '') + 'pass'),
 'nesteddef': lambda n, doc: 'def outer(self):\n' + ind(f'def {n}(): pass\nreturn {n}'),
}
WRAP = {
 'plain': lambda s: s,
 'if': lambda s: 'if True:\n' + ind(s),
 'try': lambda s: 'try:\n' + ind(s) + 'except Exception:\n    pass\n',
 'with': lambda s: 'import contextlib\nwith contextlib.suppress(Exception):\n' + ind(s),
 'for': lambda s: 'for _i in (1,):\n' + ind(s),
 'main': lambda s: "if __name__ == '__main__':\n" + ind(s),
}
def pykind(owner_vars, name, in_class):
    v = owner_vars[name]
    if isinstance(v, classmethod): return 'Class Method'
    if isinstance(v, staticmethod): return 'Static Method'
    if isinstance(v, property): return 'Property'
    if isinstance(v, type): return 'Exception' if issubclass(v, BaseException) else 'Class'
    if isinstance(v, types.FunctionType):
        return ('Method' if in_class else 'Function')
    return 'var'
def pdkind(o):
    K = model.DocumentableKind
    m = {K.CLASS_METHOD:'Class Method', K.STATIC_METHOD:'Static Method', K.PROPERTY:'Property', K.CLASS:'Class', K.EXCEPTION:'Exception', K.METHOD:'Method', K.FUNCTION:'Function'}
    return m.get(o.kind, 'var')

def check(src, scope):
    ns = {'__name__': 'm'}
    exec(compile(src, '<m>', 'exec'), ns)
    s = model.System(OPTS); b = s.systemBuilder(s); b.addModuleString(src, 'm'); b.buildModules()
    if scope == 'module':
        pyns = {k: v for k, v in ns.items() if not k.startswith('__') and not isinstance(v, types.ModuleType) and k != '_i'}
        ctx = s.allobjects['m']
    else:
        pyns = {k: v for k, v in vars(ns['Host']).items() if not k.startswith('__')}
        ctx = s.allobjects['m.Host']
    pd = {k: o for k, o in ctx.contents.items()}
    probs = []
    for k in set(pyns) | set(pd):
        if k in ('contextlib',): continue
        if k not in pd: probs.append(('missing', k)); continue
        if k not in pyns: probs.append(('invented', k)); continue
        pk, dk = pykind(pyns, k, scope == 'class'), pdkind(pd[k])
        if pk != dk: probs.append(('kind', k, pk, dk))
        v = pyns[k]
        f = v.__func__ if isinstance(v, (classmethod, staticmethod)) else (v.fget if isinstance(v, property) else v)
        if pk != 'var':
            want = inspect.cleandoc(f.__doc__) if f.__doc__ else None
            got = pd[k].docstring
            if want != got and not (pk == 'Property'): probs.append(('doc', k, want, got))
            if isinstance(pd[k], model.Function) and pd[k].is_async != inspect.iscoroutinefunction(f): probs.append(('async', k))
    return probs

cnt = Counter(); ex = {}; total = 0
for scope in ('module', 'class'):
    for (k1, k2) in itertools.product(STMTS_CLASS, repeat=2):
        for w1 in WRAP:
            for doc in DOCS:
                if scope == 'module' and (k1 in ('classmethod','staticmethod','property','oldstatic','oldclass') or k2 in ('classmethod','staticmethod','property','oldstatic','oldclass')): continue
                s1 = STMTS_CLASS[k1]('n1', doc); s2 = STMTS_CLASS[k2]('n2', 'one')
                if scope == 'module':
                    s1 = s1.replace('(self)', '()'); s2 = s2.replace('(self)', '()')
                    src = WRAP[w1](s1) + s2
                else:
                    src = 'class Host:\n' + ind(WRAP[w1](s1) + s2)
                total += 1
                try:
                    for p in check(src, scope):
                        key = (p[0], scope, k1 if p[1]=='n1' else k2, w1 if p[1]=='n1' else '-'); cnt[p[0]] += 1; ex.setdefault(key, (p, src))
                except Exception as e:
                    cnt['EXC'] += 1; ex.setdefault(('EXC', type(e).__name__), (repr(e), src))
print('programs', total, dict(cnt))
for k, v in sorted(ex.items(), key=str): print(k, repr(v)[:300])
