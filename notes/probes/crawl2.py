from crawl import *
import random
OPTS = proj.OPTS
cnt = Counter(); ex = {}; n = 0
keys = list(proj.DIMS)
combos = [c for c in itertools.product(*proj.DIMS.values())]
random.seed(2)
PRIVS = [[], [(model.PrivacyClass.HIDDEN, 'pkg._impl.Y')], [(model.PrivacyClass.HIDDEN, 'pkg._impl.X')], [(model.PrivacyClass.HIDDEN, 'pkg._impl')], [(model.PrivacyClass.HIDDEN, 'pkg.user')], [(model.PrivacyClass.PRIVATE, 'pkg.*')], [(model.PrivacyClass.HIDDEN, '**.m1')]]
for combo in random.sample(combos, 150):
    kw = dict(zip(keys, combo))
    if kw['reexp'] == 'none' and kw['local_def'] != 'none': continue
    if kw['local_def'] == 'before': continue
    mods, exporter, newname = proj.gen(**kw)
    for priv in PRIVS:
      for theme in ('base', 'classic', 'readthedocs'):
        if theme != 'classic' and priv: continue
        OPTS.privacy = priv
        s = proj.build(mods)
        out = tempfile.mkdtemp(prefix='crawl')
        try:
            render(s, out, theme)
            probs, pages = crawl(out)
            n += 1
            hidden_urls = set()
            for o in s.allobjects.values():
                if not o.isVisible: hidden_urls.add(o.url); hidden_urls.add(o.url.split('#')[0])
            for p in probs:
                url = p[2]
                cls = 'dup' if '%20' in url else ('hidden-target' if (url in hidden_urls or url.split('#')[0] in hidden_urls) else 'other')
                key = (p[0], cls, p[1] if cls != 'other' else p[1]); cnt[key] += 1; ex.setdefault(key, (kw, priv, theme, p))
        finally:
            shutil.rmtree(out)
OPTS.privacy = []
print('runs', n)
for k, v in sorted(cnt.items(), key=str): print(k, v)
for k, v in ex.items():
    if k[1] == 'other': print(k, repr(v)[:500])
