import itertools
from collections import Counter
from xml.sax import SAXParseException
from pydoctor import model, epydoc2stan
from pydoctor.options import Options
from pydoctor.epydoc.markup import ParsedDocstring, ParseError, Field
from pydoctor.epydoc.markup import plaintext
from pydoctor.stanutils import flatten, flatten_text
from twisted.web.template import tags
OPTS = Options.defaults(); OPTS.verbosity = -3
EXC = [None, ValueError, KeyError, AttributeError, IndexError, RecursionError, UnicodeError, lambda m: SAXParseException(m, None, None), AssertionError, TypeError, NotImplementedError]

class StubParsed(ParsedDocstring):
    def __init__(self, doc, beh):
        super().__init__(fields=[])
        self.doc = doc; self.beh = beh
    @property
    def has_body(self): return True
    def _maybe(self, site):
        e = EXC[self.beh.get(site, 0)]
        if e is not None: raise e('boom ' + site)
    def to_stan(self, linker):
        self._maybe('to_stan'); return tags.p(self.doc)
    def to_node(self):
        self._maybe('to_node')
        from pydoctor.epydoc.docutils import new_document
        from docutils import nodes
        d = new_document('x'); p = nodes.paragraph('', self.doc); d += p
        return d

def run(beh, doc='Hello *world* L{x}'):
    s = model.System(OPTS)
    msgs = []
    orig = s.msg
    def msg(section, m, thresh=0, **kw):
        msgs.append((section, m, thresh)); 
        if thresh < 0: s.violations += 1
    s.msg = msg
    mod = model.Module(s, 'm'); mod.parentMod = mod; s.addObject(mod)
    f = model.Function(s, 'f', mod); f.parentMod = mod; f.docstring = doc; f.annotations = {}; s.addObject(f)
    g = model.Function(s, 'g', mod); g.parentMod = mod; g.docstring = 'fine'; g.annotations = {}; s.addObject(g)
    def parser(d, errs):
        b = beh.get('parse', 0)
        if d == doc:
            if b == 'parseerror':
                e = ParseError('bad', 1); errs.append(e); raise e
            if b == 'errs_only':
                errs.append(ParseError('recoverable', 1))
            elif b:
                raise EXC[b]('boom parse')
            return StubParsed(d, beh)
        return plaintext.parse_docstring(d, errs)
    old = epydoc2stan.get_parser_by_name
    epydoc2stan.get_parser_by_name = lambda fmt, obj=None: parser
    try:
        out = {}
        out['doc'] = flatten(epydoc2stan.format_docstring(f))
        out['sum'] = flatten(epydoc2stan.format_summary(f))
        out['toc'] = epydoc2stan.format_toc(f)
        out['gdoc'] = flatten(epydoc2stan.format_docstring(g))
    finally:
        epydoc2stan.get_parser_by_name = old
    return s, msgs, out

cnt = Counter(); ex = {}; total = 0
for pb in [0, 'parseerror', 'errs_only'] + list(range(1, len(EXC))):
    for ts in range(len(EXC)):
        for tn in range(len(EXC)):
            beh = {'parse': pb, 'to_stan': ts, 'to_node': tn}
            total += 1
            try:
                s, msgs, out = run(beh)
            except BaseException as e:
                key = ('ESCAPE', type(e).__name__, pb if isinstance(pb, str) else bool(pb), bool(ts), bool(tn)); cnt['ESCAPE'] += 1; ex.setdefault(key, (beh, repr(e))); continue
            fatal = bool(pb) and pb != 'errs_only' or bool(ts)
            if fatal:
                if 'Hello *world* L{x}' not in out['doc'].replace('&#42;','*'): cnt['text-lost'] += 1; ex.setdefault('text-lost', (beh, out['doc']))
                if 'm.f' not in s.parse_errors['docstring']: cnt['not-in-parse_errors'] += 1; ex.setdefault('not-in-parse_errors', (beh, msgs))
            nrep = sum(1 for m in msgs if m[2] < 0)
            if (fatal or pb == 'errs_only') and nrep < 1: cnt['not-reported'] += 1; ex.setdefault('not-reported', (beh, msgs))
            if nrep > 1: cnt['reported-%d-times' % nrep] += 1; ex.setdefault('reported-multi', (beh, msgs))
            if 'fine' not in out['gdoc']: cnt['other-affected'] += 1
print('schedules', total, dict(cnt))
for k, v in sorted(ex.items(), key=str): print(k, repr(v)[:400])
