from pydoctor.epydoc.markup._pyval_repr import PyvalColorizer, _ColorizerState, _Maxlines, _Linebreak
from docutils import nodes

def h(n: int, linelen: int, start: int) -> bool:
    """
    pre: 0 <= n <= 8 and 1 <= linelen <= 4 and 0 <= start <= linelen
    post: _
    """
    c = PyvalColorizer(linelen=linelen, maxlines=0, linebreakok=True)
    st = _ColorizerState()
    st.charpos = start
    s = 'x' * n
    c._output(s, None, st)
    # text conserved, every produced line fits
    text = ''
    cur = start
    for nd in st.result:
        if nd is c.LINEWRAP:
            continue
        if nd is c.NEWLINE:
            cur = 0
            continue
        t = nd.astext()
        text += t
        cur += len(t)
        if cur > linelen: return False
    return text == s
