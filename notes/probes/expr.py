import ast, itertools
from collections import Counter
from pydoctor.epydoc.markup._pyval_repr import colorize_inline_pyval
from pydoctor.node2stan import gettext

LEAVES = ['a', 'b', 'c']
def forms(x, y, z):
    F = {}
    for op in ['+','-','*','/','//','%','**','<<','>>','|','^','&','@']:
        F['bin'+op] = f'{x} {op} {y}'
    for op in ['-','+','~','not ']:
        F['un'+op.strip()] = f'{op}{x}'
    F['and'] = f'{x} and {y}'; F['or'] = f'{x} or {y}'
    for op in ['<','==','in','is not']:
        F['cmp'+op] = f'{x} {op} {y}'
    F['cmpchain'] = f'{x} < {y} < {z}'
    F['ifexp'] = f'{x} if {y} else {z}'
    F['lambda'] = f'lambda: {x}'
    F['call'] = f'{x}({y})'
    F['callkw'] = f'f(k={x})'
    F['callstar'] = f'f(*{x})'
    F['callss'] = f'f(**{x})'
    F['sub'] = f'{x}[{y}]'
    F['subslice'] = f'{x}[{y}:{z}]'
    F['subtuple'] = f'{x}[{y}, {z}]'
    F['attr'] = f'{x}.attr'
    F['tuple1'] = f'({x},)'
    F['tuple2'] = f'({x}, {y})'
    F['list'] = f'[{x}, {y}]'
    F['set'] = '{' + f'{x}, {y}' + '}'
    F['dict'] = '{' + f'{x}: {y}' + '}'
    F['dictss'] = '{' + f'**{x}' + '}'
    F['starred'] = f'[*{x}]'
    F['await'] = f'await {x}'
    F['yield'] = f'(yield {x})'
    F['walrus'] = f'({x} := {y})' if x.isidentifier() else None
    F['listcomp'] = f'[{x} for q in {y}]'
    F['genexp'] = f'({x} for q in {y})'
    F['fstring'] = "f'{" + x + "}'" if "'" not in x and '{' not in x and 'lambda' not in x and ':' not in x else None
    return {k:v for k,v in F.items() if v}

def norm(node):
    # documented spelling change: set display -> set([...])
    class T(ast.NodeTransformer):
        def visit_Call(self, n):
            self.generic_visit(n)
            if isinstance(n.func, ast.Name) and n.func.id=='set' and len(n.args)==1 and isinstance(n.args[0], ast.List) and not n.keywords:
                return ast.Set(elts=n.args[0].elts)
            return n
    return ast.dump(T().visit(node))

def render(src):
    e = ast.parse(src, mode='eval').body
    return ''.join(gettext(colorize_inline_pyval(e).to_node()))

cnt = Counter(); ex = {}; total = 0
child_forms = forms('a','b','c')
for ck, csrc in child_forms.items():
    P = '(' + csrc + ')'
    for pos in (0,1,2):
        args = ['x','y','z']; args[pos] = P
        for pk, psrc in forms(*args).items():
            if P not in psrc: continue
            try:
                want = ast.parse(psrc, mode='eval').body
            except SyntaxError:
                continue
            total += 1
            try:
                out = render(psrc)
            except Exception as e:
                cnt['EXC '+type(e).__name__] += 1; ex.setdefault('EXC '+type(e).__name__, (psrc, repr(e))); continue
            try:
                got = ast.parse(out, mode='eval').body
            except SyntaxError as e:
                key = ('unparseable', pk, ck) ; cnt[key[0]] += 1; ex.setdefault(key, (psrc, out)); continue
            if norm(got) != norm(want):
                key = ('different', pk, pos, ck); cnt[key[0]] += 1; ex.setdefault(key, (psrc, out))
print('total', total, dict(cnt))
for k, v in sorted(ex.items(), key=str): print(k, v)
