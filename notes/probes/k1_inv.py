from typing import Tuple
def _parseInventoryLine(line: str) -> Tuple[str, str, int, str, str]:
    parts = line.split(' ')
    prio_idx = 2
    try:
        while True:
            try:
                prio = int(parts[prio_idx])
                break
            except ValueError:
                prio_idx += 1
        location = parts[prio_idx + 1]
    except IndexError:
        raise ValueError("Could not find priority column")
    name = ' '.join(parts[: prio_idx - 1])
    typ = parts[prio_idx - 1]
    display = ' '.join(parts[prio_idx + 2 :])
    if not display:
        raise ValueError("Display name column cannot be empty")
    return name, typ, prio, location, display

def h_total(line: str) -> bool:
    """
    pre: len(line) <= 7
    post: True
    raises: ValueError
    """
    _parseInventoryLine(line)
    return True

def h_roundtrip(name: str, url: str) -> bool:
    """
    pre: 1 <= len(name) <= 4 and 1 <= len(url) <= 4
    pre: ' ' not in name and ' ' not in url and chr(10) not in name and chr(10) not in url
    post: _
    """
    line = f'{name} py:class -1 {url} -'
    n, t, p, loc, d = _parseInventoryLine(line)
    return n == name and loc == url and t == 'py:class'
