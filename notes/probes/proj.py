import itertools, sys
from pydoctor import model
from pydoctor.options import Options
OPTS = Options.defaults(); OPTS.verbosity = -3

DIMS = dict(
    xkind=['class','func'],
    dup=['none','same','other','ifelse'],
    nested=[False, True],
    reexp=['none','pkg_plain','pkg_renamed','pkg_star','sib_plain'],
    origin_all=['absent','without','with'],
    local_def=['none','before','after'],
    consumer=['none','old','new','both','modalias'],
    cycle=[False, True],
)

def gen(xkind, dup, nested, reexp, origin_all, local_def, consumer, cycle):
    def defx(tag):
        if xkind == 'class':
            s = f"class X:\n    '''X {tag}'''\n    def m{tag}(self):\n        '''m'''\n"
            if nested:
                s += f"    class N:\n        def n(self): pass\n"
            return s
        return f"def X():\n    '''X {tag}'''\n"
    def defother(tag):
        if xkind == 'class':
            return f"def X():\n    '''Xf {tag}'''\n"
        return f"class X:\n    '''Xc {tag}'''\n    def o(self): pass\n"
    impl = ""
    if cycle and consumer != 'none':
        impl += "from pkg import user\n"
    if origin_all == 'without': impl += "__all__ = ['Y']\n"
    elif origin_all == 'with': impl += "__all__ = ['X', 'Y']\n"
    impl += "class Y:\n    '''Y'''\n"
    if dup == 'ifelse':
        impl += "if 1:\n" + ''.join('    '+l+'\n' for l in defx(1).splitlines())
        impl += "else:\n" + ''.join('    '+l+'\n' for l in defx(2).splitlines())
    else:
        impl += defx(1)
        if dup == 'same': impl += defx(2)
        elif dup == 'other': impl += defother(2)
    init = "'''pkg'''\n"
    sib = None
    newname = 'X'
    exporter = None
    def local():
        return f"class {newname}:\n    '''local'''\n    def loc(self): pass\n"
    if reexp.startswith('pkg'):
        exporter = 'pkg'
        if reexp == 'pkg_renamed': newname = 'Z'
        body = f"__all__ = ['{newname}']\n"
        if local_def == 'before': body += local()
        if reexp == 'pkg_plain': body += "from pkg._impl import X\n"
        elif reexp == 'pkg_renamed': body += "from ._impl import X as Z\n"
        else: body += "from ._impl import *\n"
        if local_def == 'after': body += local()
        init += body
    elif reexp == 'sib_plain':
        exporter = 'pkg.api'
        sib = "__all__ = ['X']\n"
        if local_def == 'before': sib += local()
        sib += "from ._impl import X\n"
        if local_def == 'after': sib += local()
    user = None
    if consumer != 'none':
        user = ""
        exp = exporter or 'pkg._impl'
        if consumer == 'old': user += "from pkg._impl import X as B\n"
        elif consumer == 'new': user += f"from {exp} import {newname} as B\n"
        elif consumer == 'both': user += f"from pkg._impl import X as B0\nfrom {exp} import {newname} as B\n"
        else: user += "import pkg._impl as mm\nB = mm.X\n"
        if xkind == 'class':
            user += "class U(B):\n    '''U'''\n"
        else:
            user += "def u(a: B): pass\n"
    mods = [('pkg', init, True), ('_impl', impl, False)]
    if sib is not None: mods.append(('api', sib, False))
    if user is not None: mods.append(('user', user, False))
    return mods, exporter, newname

def build(mods, order=None):
    s = model.System(OPTS)
    b = s.systemBuilder(s)
    for name, src, ispkg in mods:
        if ispkg: b.addModuleString(src, name, is_package=True)
        else: b.addModuleString(src, name, parent_name='pkg')
    if order is not None:
        um = s.unprocessed_modules
        s.unprocessed_modules = [um[i] for i in order]
    b.buildModules()
    return s

def invariants(s):
    bad = []
    for k, o in s.allobjects.items():
        if o.fullName() != k: bad.append(('I1', k, o.fullName()))
    reach = {}
    def walk(o):
        reach[id(o)] = o
        for n, c in o.contents.items():
            if c.name != n: bad.append(('I2name', o.fullName(), n, c.name))
            if c.parent is not o: bad.append(('I2parent', c.fullName(), o.fullName()))
            walk(c)
    for r in s.rootobjects: walk(r)
    for o in reach.values():
        if s.allobjects.get(o.fullName()) is not o: bad.append(('I3unreg', o.fullName()))
    for k, o in s.allobjects.items():
        if id(o) in reach: continue
        # must be (inside) a superseded definition
        p = o; sup = False
        while p is not None:
            if ' ' in p.name: sup = True
            p = p.parent
        if not sup: bad.append(('I3orphan', k))
    for o in s.allobjects.values():
        if isinstance(o, model.Function) and isinstance(o.parent, model.Class):
            if o.kind not in (model.DocumentableKind.METHOD, model.DocumentableKind.CLASS_METHOD, model.DocumentableKind.STATIC_METHOD): bad.append(('I4', o.fullName(), o.kind))
        if isinstance(o, (model.Function, model.Attribute)) and o.contents: bad.append(('I4c', o.fullName()))
        if isinstance(o, model.Class):
            m = o.mro()
            if not m or m[0] is not o: bad.append(('I5self', o.fullName()))
            for b_ in o.baseobjects:
                if b_ is not None and list(m).count(b_) != 1: bad.append(('I5base', o.fullName(), b_.fullName()))
                if b_ is not None and b_.subclasses.count(o) != o.baseobjects.count(b_): bad.append(('I6', o.fullName()))
            for sc in o.subclasses:
                if o not in sc.baseobjects: bad.append(('I6inv', o.fullName(), sc.fullName()))
    urls = {}
    for o in s.allobjects.values():
        if o.documentation_location is model.DocLocation.OWN_PAGE:
            if o.url in urls and urls[o.url] is not o: bad.append(('I8', o.url))
            urls[o.url] = o
    return bad

if __name__ == '__main__':
    keys = list(DIMS)
    from collections import Counter
    fails = Counter(); ex = {}; n = 0; exc = Counter()
    for combo in itertools.product(*DIMS.values()):
        kw = dict(zip(keys, combo))
        if kw['reexp'] == 'none' and kw['local_def'] != 'none': continue
        n += 1
        mods, exporter, newname = gen(**kw)
        try:
            s = build(mods)
        except Exception as e:
            exc[type(e).__name__ + ':' + str(e)[:60]] += 1; ex.setdefault('EXC'+type(e).__name__, kw); continue
        for b in invariants(s):
            fails[b[0]] += 1; ex.setdefault(b[0], (kw, b))
    print('shapes', n, 'fails', dict(fails), 'exc', dict(exc))
    for k, v in ex.items(): print(k, v)
