import sys, os, re, tempfile, shutil, itertools, urllib.parse
from pathlib import Path
from collections import Counter
from html.parser import HTMLParser
import importlib.resources as ir
from pydoctor import model
from pydoctor.options import Options
from pydoctor.templatewriter import TemplateLookup
from pydoctor.templatewriter.writer import TemplateWriter
from pydoctor.sphinx import SphinxInventoryWriter
import proj

class P(HTMLParser):
    def __init__(self):
        super().__init__(); self.links = []; self.anchors = set()
    def handle_starttag(self, tag, attrs):
        d = dict(attrs)
        for k in ('href', 'src'):
            if k in d and d[k] is not None: self.links.append((tag, k, d[k]))
        for k in ('id', 'name'):
            if k in d and d[k] is not None and tag != 'meta': self.anchors.add(d[k])

def render(system, out, theme='classic'):
    tl = TemplateLookup(ir.files('pydoctor.themes') / 'base')
    if theme != 'base': tl.add_templatedir(ir.files('pydoctor.themes') / theme)
    w = TemplateWriter(Path(out), tl)
    w.prepOutputDirectory()
    w.writeSummaryPages(system)
    w.writeIndividualFiles(system.rootobjects)

def crawl(out):
    pages = {}
    for f in os.listdir(out):
        if f.endswith('.html'):
            p = P(); p.feed(open(os.path.join(out, f), encoding='utf-8').read()); pages[f] = p
    probs = []
    for f, p in pages.items():
        for tag, k, url in p.links:
            u = urllib.parse.urlsplit(url)
            if u.scheme or u.netloc: continue
            path = urllib.parse.unquote(u.path); frag = urllib.parse.unquote(u.fragment)
            target = f if path == '' else path
            if not os.path.exists(os.path.join(out, target)):
                probs.append(('dead-file', f, url)); continue
            if frag and target.endswith('.html'):
                if frag not in pages[target].anchors: probs.append(('dead-anchor', f, url))
    return probs, pages

if __name__ == '__main__':
    OPTS = proj.OPTS
    cnt = Counter(); ex = {}; n = 0
    keys = list(proj.DIMS)
    combos = [c for c in itertools.product(*proj.DIMS.values())]
    import random; random.seed(1)
    for combo in random.sample(combos, 60):
        kw = dict(zip(keys, combo))
        if kw['reexp'] == 'none' and kw['local_def'] != 'none': continue
        mods, exporter, newname = proj.gen(**kw)
        for priv in ([], [(model.PrivacyClass.HIDDEN, 'pkg._impl.Y')], [(model.PrivacyClass.HIDDEN, 'pkg._impl')], [(model.PrivacyClass.PUBLIC, '**')]):
            OPTS.privacy = priv
            s = proj.build(mods)
            out = tempfile.mkdtemp(prefix='crawl')
            try:
                render(s, out)
                probs, pages = crawl(out)
                n += 1
                for p in probs:
                    key = (p[0], 'hiddenrule' if priv and priv[0][0] is model.PrivacyClass.HIDDEN else 'nohidden'); cnt[key] += 1; ex.setdefault(key, (kw, priv, p))
                # every visible own-page object has page; members have anchors
                for o in s.allobjects.values():
                    if not o.isVisible or ' ' in o.fullName(): continue
                    u = urllib.parse.urlsplit(o.url)
                    path = urllib.parse.unquote(u.path)
                    if path not in pages: cnt['missing-page'] += 1; ex.setdefault('missing-page', (kw, priv, o.fullName(), o.url))
                    elif u.fragment and urllib.parse.unquote(u.fragment) not in pages[path].anchors: cnt['missing-anchor'] += 1; ex.setdefault('missing-anchor', (kw, priv, o.fullName(), o.url))
            finally:
                shutil.rmtree(out)
    OPTS.privacy = []
    print('runs', n, dict(cnt))
    for k, v in ex.items(): print(k, repr(v)[:400])
