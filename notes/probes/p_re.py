import z3, re, time, sys
try:
    import re._parser as sre_parse, re._constants as sre_c
except ImportError:
    import sre_parse, sre_constants as sre_c
from pydoctor.qnmatch import translate

ANY = z3.AllChar(z3.ReSort(z3.StringSort()))
def lit(c): return z3.Re(z3.StringVal(chr(c)))
def cls_items(items, dotall=True):
    neg=False; parts=[]
    for op, av in items:
        if op is sre_c.NEGATE: neg=True
        elif op is sre_c.LITERAL: parts.append(lit(av))
        elif op is sre_c.RANGE: parts.append(z3.Range(chr(av[0]), chr(av[1])))
        else: raise NotImplementedError(op)
    r = parts[0] if len(parts)==1 else z3.Union(*parts)
    if neg: r = z3.Intersect(ANY, z3.Complement(r))
    return r
def conv(sub, flags):
    out=[]
    for op, av in sub:
        if op is sre_c.LITERAL: out.append(lit(av))
        elif op is sre_c.NOT_LITERAL: out.append(z3.Intersect(ANY, z3.Complement(lit(av))))
        elif op is sre_c.ANY:
            out.append(ANY if flags & re.DOTALL else z3.Intersect(ANY, z3.Complement(lit(10))))
        elif op is sre_c.IN: out.append(cls_items(av))
        elif op in (sre_c.MAX_REPEAT, sre_c.MIN_REPEAT):
            lo, hi, body = av
            b = conv(body, flags)
            if hi is sre_c.MAXREPEAT:
                r = z3.Star(b) if lo==0 else z3.Concat(*([b]*lo+[z3.Star(b)]))
            else:
                r = z3.Loop(b, lo, hi)
            out.append(r)
        elif op is sre_c.SUBPATTERN:
            g, addf, delf, body = av
            out.append(conv(body, (flags|addf)&~delf))
        elif op is sre_c.AT:
            if av is sre_c.AT_END_STRING: continue  # trailing \Z: full match
            raise NotImplementedError(av)
        elif op is sre_c.BRANCH:
            out.append(z3.Union(*[conv(b, flags) for b in av[1]]))
        else: raise NotImplementedError(op)
    if not out: return z3.Re(z3.StringVal(''))
    return out[0] if len(out)==1 else z3.Concat(*out)

def spec(pat):
    # documented meaning
    i=0; n=len(pat); out=[]
    nodot = z3.Intersect(ANY, z3.Complement(lit(ord('.'))))
    while i<n:
        c=pat[i]; i+=1
        if c=='*':
            if i<n and pat[i]=='*': out.append(z3.Star(ANY)); i+=1
            else: out.append(z3.Star(nodot))
        elif c=='?': out.append(ANY)
        elif c=='[':
            j=i
            if j<n and pat[j]=='!': j+=1
            if j<n and pat[j]==']': j+=1
            while j<n and pat[j]!=']': j+=1
            if j>=n: out.append(lit(ord('[')))
            else:
                stuff=pat[i:j]; i=j+1
                neg = stuff[0]=='!'
                if neg: stuff=stuff[1:]
                u=[lit(ord(ch)) for ch in stuff]
                r=u[0] if len(u)==1 else z3.Union(*u)
                if neg: r=z3.Intersect(ANY, z3.Complement(r))
                out.append(r)
        else: out.append(lit(ord(c)))
    if not out: return z3.Re(z3.StringVal(''))
    return out[0] if len(out)==1 else z3.Concat(*out)

import itertools
alpha = sys.argv[1]; L=int(sys.argv[2])
t0=time.time(); nq=0; bad=[]
s = z3.Solver(); x = z3.String('x')
for l in range(0,L+1):
    for tup in itertools.product(alpha, repeat=l):
        pat=''.join(tup)
        try:
            rx = translate(pat)
            p = sre_parse.parse(rx)
        except Exception as e:
            bad.append((pat,'EXC',repr(e))); continue
        impl = conv(p, p.state.flags)
        sp = spec(pat)
        s.push()
        s.add(z3.InRe(x, impl) != z3.InRe(x, sp))
        r = s.check(); nq+=1
        if str(r)=='sat':
            w = s.model()[x].as_string()
            bad.append((pat, 'CEX', w))
        elif str(r)!='unsat': bad.append((pat,'UNK',''))
        s.pop()
print('queries',nq,'time',round(time.time()-t0,1),'bad',len(bad))
for b in bad[:30]: print(b)
