import sys, importlib, importlib.abc, importlib.util, itertools, types
from collections import Counter
from pydoctor import model
from pydoctor.options import Options
OPTS = Options.defaults(); OPTS.verbosity = -3

class MemFinder(importlib.abc.MetaPathFinder, importlib.abc.Loader):
    def __init__(self, sources):  # {modname: (src, is_pkg)}
        self.sources = sources
    def find_spec(self, name, path, target=None):
        if name in self.sources:
            return importlib.util.spec_from_loader(name, self, is_package=self.sources[name][1])
        return None
    def create_module(self, spec): return None
    def exec_module(self, module):
        src, is_pkg = self.sources[module.__name__]
        exec(compile(src, '<mem:%s>' % module.__name__, 'exec'), module.__dict__)

def run_cpython(sources):
    f = MemFinder(sources)
    sys.meta_path.insert(0, f)
    try:
        mods = {}
        for name in sources:
            mods[name] = importlib.import_module(name)
        return mods
    finally:
        sys.meta_path.remove(f)
        for name in list(sys.modules):
            if name in sources: del sys.modules[name]

def build(sources, order=None):
    s = model.System(OPTS); b = s.systemBuilder(s)
    for name in sorted(sources, key=lambda n: (n.count('.'), n)):
        src, is_pkg = sources[name]
        parent, _, base = name.rpartition('.')
        b.addModuleString(src, base, parent_name=parent or None, is_package=is_pkg)
    b.buildModules(); return s

def qual(o):
    if isinstance(o, types.ModuleType): return o.__name__
    if isinstance(o, (type, types.FunctionType)): return o.__module__ + '.' + o.__qualname__
    return None

def compare(sources):
    """yield problems: (kind, scope, name, pydoctor, python)"""
    mods = run_cpython(sources)
    s = build(sources)
    for mname, m in mods.items():
        scopes = [(mname, vars(m))]
        for k, v in vars(m).items():
            if isinstance(v, type) and v.__module__ == mname:
                scopes.append((mname + '.' + v.__qualname__, vars(v)))
        for sname, ns in scopes:
            ctx = s.allobjects.get(sname)
            if ctx is None: yield ('noscope', sname, None, None, None); continue
            for k, v in ns.items():
                if k.startswith('__'): continue
                q = qual(v)
                if q is None: continue
                r = ctx.resolveName(k)
                if r is None:
                    yield ('unresolved', sname, k, ctx.expandName(k), q)
                elif r.fullName() != q:
                    yield ('WRONG', sname, k, r.fullName(), q)

FORMS = ['from_abs', 'from_abs_as', 'from_rel1', 'from_rel2', 'star', 'import_mod_as', 'import_dotted', 'from_pkg_import_mod', 'via_pkg_reimport']
def gen(form, in_class, deep, use):
    # defining module: top.sub.d (if deep) or top.d ; consumer: top.sub.c or top.c
    pk = 'top.sub' if deep else 'top'
    src = {'top': ("'''top'''\n", True)}
    if deep: src['top.sub'] = ("", True)
    src[pk + '.d'] = ("class Ka:\n    '''Ka'''\n    class Inner:\n        pass\n    def meth(self): pass\ndef fa():\n    '''fa'''\n", False)
    pre = ''
    name = 'Ka'
    if form == 'from_abs': imp = f"from {pk}.d import Ka, fa"
    elif form == 'from_abs_as': imp = f"from {pk}.d import Ka as Kb, fa as fb"; name = 'Kb'
    elif form == 'from_rel1': imp = "from .d import Ka, fa"
    elif form == 'from_rel2':
        if not deep: return None
        imp = "from ..sub.d import Ka, fa"
    elif form == 'star': imp = f"from {pk}.d import *"
    elif form == 'import_mod_as': imp = f"import {pk}.d as dm"; name = 'dm.Ka'
    elif form == 'import_dotted': imp = f"import {pk}.d"; name = f'{pk}.d.Ka'
    elif form == 'from_pkg_import_mod': imp = f"from {pk} import d"; name = 'd.Ka'
    elif form == 'via_pkg_reimport':
        src[pk] = (src[pk][0] + f"from {pk}.d import Ka, fa\n", True)
        imp = f"from {pk} import Ka, fa"
    body = ''
    if use == 'base': body = f"class Uc({name}):\n    '''Uc'''\n"
    elif use == 'alias': body = f"Alias = {name}\n"
    elif use == 'inner': body = f"In = {name}.Inner\n"
    if in_class:
        c = "class Scope:\n    " + imp + "\n" + ''.join('    ' + l + '\n' for l in body.splitlines())
    else:
        c = imp + "\n" + body
    src[pk + '.c'] = (c, False)
    return src

if __name__ == '__main__':
    cnt = Counter(); ex = {}; total = 0
    for form, in_class, deep, use in itertools.product(FORMS, (False, True), (False, True), ('none', 'base', 'alias', 'inner')):
        src = gen(form, in_class, deep, use)
        if src is None: continue
        total += 1
        try:
            for p in compare(src):
                key = (p[0], form, in_class, use); cnt[p[0]] += 1; ex.setdefault(key, p)
        except Exception as e:
            cnt['EXC'] += 1; ex.setdefault(('EXC', form, in_class, use), repr(e))
    print('projects', total, dict(cnt))
    for k, v in sorted(ex.items(), key=str): print(k, v)
