from typing import List
from pydoctor.mro import mro

def ref_merge(seqs):
    res = []
    seqs = [list(s) for s in seqs]
    while True:
        seqs = [s for s in seqs if s]
        if not seqs: return res
        for s in seqs:
            cand = s[0]
            if not any(cand in t[1:] for t in seqs): break
        else:
            raise ValueError('inconsistent')
        res.append(cand)
        for s in seqs:
            if s[0] == cand: del s[0]

def ref_mro(c, bases):
    return [c] + ref_merge([ref_mro(b, bases) for b in bases[c]] + [list(bases[c])])

def h(b1: List[int], b2: List[int], b3: List[int]) -> bool:
    """
    pre: len(b1) <= 1 and len(b2) <= 2 and len(b3) <= 3
    pre: all(x == 1 for x in b1) and all(1 <= x <= 2 for x in b2) and all(1 <= x <= 3 for x in b3)
    pre: len(set(b2)) == len(b2) and len(set(b3)) == len(b3)
    post: _
    """
    bases = {1: [], 2: list(b1), 3: list(b2), 4: list(b3)}
    try:
        want = ref_mro(4, bases)
    except ValueError:
        want = None
    try:
        got = mro(4, lambda c: bases[c])
    except ValueError:
        got = None
    return got == want
