from pydoctor import visitor as V

class N:
    def __init__(self, nid, kids): self.nid=nid; self.kids=kids

def mk_ext(when, log, tag):
    class E(V.VisitorExt):
        pass
    E.when = when
    def unknown_visit(self, ob): log.append(('v', tag, ob.nid))
    def unknown_departure(self, ob): log.append(('d', tag, ob.nid))
    E.unknown_visit = unknown_visit; E.unknown_departure = unknown_departure
    return E

def h(shape: int, a0: int, a1: int, a2: int, vis: bool) -> bool:
    """
    pre: 0 <= shape <= 1 and 0 <= a0 <= 4 and 0 <= a1 <= 4 and 0 <= a2 <= 4
    post: _
    """
    acts = [a0, a1, a2]
    if shape == 0:
        root = N(0, [N(1, []), N(2, [])])
    else:
        root = N(0, [N(1, [N(2, [])])])
    log = []
    class Main(V.Visitor):
        @classmethod
        def get_children(cls, ob): return ob.kids
        def unknown_visit(self, ob):
            log.append(('v', 'M', ob.nid))
            a = acts[ob.nid]
            if a == 1: raise self.SkipChildren()
            if a == 2: raise self.SkipSiblings()
            if a == 3: raise self.SkipNode()
            if a == 4: raise self.SkipDeparture()
        def unknown_departure(self, ob): log.append(('d', 'M', ob.nid))
    exts = V.ExtList(mk_ext(V.When.BEFORE, log, 'B'), mk_ext(V.When.AFTER, log, 'A'), mk_ext(V.When.INNER, log, 'I'), mk_ext(V.When.OUTTER, log, 'O'))
    m = Main(exts)
    m.walkabout(root)
    # balanced per extension
    for tag in 'BAIO':
        st = []
        for k, t, n in log:
            if t != tag: continue
            if k == 'v':
                st.append(n)
            else:
                if not st or st.pop() != n: return False
        if st: return False
    return True
