import ast
from importlib._bootstrap import _resolve_name
from pydoctor import model, astbuilder
from pydoctor.options import Options
OPTS = Options.defaults(); OPTS.verbosity = -3
model.System(OPTS)

def pick(x, lo, hi):
    for v in range(lo, hi + 1):
        if x == v:
            return v
    raise AssertionError

def h(depth: int, ctx_is_pkg: bool, level: int, modkind: int, in_class: bool) -> bool:
    """
    pre: 0 <= depth <= 3 and 1 <= level <= 5 and 0 <= modkind <= 2
    post: _
    """
    msgs = []
    s = model.System(OPTS)
    s.msg = lambda section, msg, **kw: msgs.append(msg)
    parent = None
    names = ['p0', 'p1', 'p2']
    d = pick(depth, 0, 3)
    for i in range(d):
        p = model.Package(s, names[i], parent); p.parentMod = p; s.addObject(p); p.state = model.ProcessingState.PROCESSED
        parent = p
    if ctx_is_pkg:
        ctx = model.Package(s, 'c', parent)
    else:
        ctx = model.Module(s, 'c', parent)
    ctx.parentMod = ctx; s.addObject(ctx); ctx.state = model.ProcessingState.PROCESSING
    b = s.defaultBuilder(s)
    vis = b.ModuleVistor(b, ctx)
    b.push(ctx, 0)
    scope = ctx
    if in_class:
        scope = b.pushClass('K', 1)
    modname = [None, 'm', 'm.n'][pick(modkind, 0, 2)]
    node = ast.ImportFrom(module=modname, names=[ast.alias(name='x', asname=None)], level=level)
    node.lineno = 1
    vis.visit_ImportFrom(node)
    package = ctx.fullName() if ctx_is_pkg else (parent.fullName() if parent else '')
    try:
        if not package:
            raise ImportError('no package')
        want = _resolve_name(modname or '', package, level)
    except ImportError:
        want = None
    got = scope._localNameToFullName_map.get('x')
    if want is None:
        return got is None and any('relative import level' in m for m in msgs)
    return got == want + '.x'
