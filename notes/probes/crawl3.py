from crawl import *
import random, json, zlib
OPTS = proj.OPTS
cnt = Counter(); ex = {}; n = 0
keys = list(proj.DIMS)
combos = [c for c in itertools.product(*proj.DIMS.values())]
random.seed(3)
PRIVS = [[(model.PrivacyClass.HIDDEN, 'pkg._impl.Y')], [(model.PrivacyClass.HIDDEN, 'pkg._impl.X')], [(model.PrivacyClass.HIDDEN, 'pkg._impl')], [(model.PrivacyClass.HIDDEN, 'pkg.user')], [(model.PrivacyClass.PRIVATE, 'pkg.*')], [(model.PrivacyClass.HIDDEN, '**.m1')], [(model.PrivacyClass.PRIVATE, '**.X'), (model.PrivacyClass.HIDDEN, 'pkg.user.*')]]
class LP(HTMLParser):
    """collect (classes-of-ancestors-chain, href) for links and listing rows"""
    def __init__(self):
        super().__init__(); self.stack = []; self.items = []
    def handle_starttag(self, tag, attrs):
        d = dict(attrs)
        self.stack.append((tag, d.get('class') or ''))
        if tag == 'a' and d.get('href'):
            self.items.append(([c for t, c in self.stack], d['href']))
    def handle_endtag(self, tag):
        while self.stack:
            t, c = self.stack.pop()
            if t == tag: break
VOID = {'meta','link','br','img','input','hr','wbr'}
for combo in random.sample(combos, 120):
    kw = dict(zip(keys, combo))
    if kw['reexp'] == 'none' and kw['local_def'] != 'none': continue
    if kw['local_def'] == 'before' or kw['dup'] != 'none': continue
    mods, exporter, newname = proj.gen(**kw)
    for priv in PRIVS:
        OPTS.privacy = priv
        s = proj.build(mods)
        out = tempfile.mkdtemp(prefix='crawl')
        try:
            render(s, out, 'classic')
            SphinxInventoryWriter(logger=lambda *a, **k: None, project_name='p', project_version='1').generate(s.rootobjects, out)
            n += 1
            hidden = [o for o in s.allobjects.values() if not o.isVisible]
            private = [o for o in s.allobjects.values() if o.isVisible and o.privacyClass is model.PrivacyClass.PRIVATE]
            files = set(os.listdir(out))
            inv = open(os.path.join(out, 'objects.inv'), 'rb').read().split(b'\n', 4)[4]
            invnames = {l.split(' ')[0] for l in zlib.decompress(inv).decode().splitlines()}
            alldocs = open(os.path.join(out, 'all-documents.html'), encoding='utf-8').read()
            sidx = open(os.path.join(out, 'searchindex.json'), encoding='utf-8').read()
            for o in hidden:
                fn = o.fullName()
                if o.documentation_location is model.DocLocation.OWN_PAGE and (fn + '.html') in files: cnt['hidden-has-page'] += 1; ex.setdefault('hidden-has-page', (kw, priv, fn))
                if fn in invnames: cnt['hidden-in-inventory'] += 1
                if ('>' + fn + '<') in alldocs: cnt['hidden-in-all-documents'] += 1; ex.setdefault('hidden-in-all-documents', (kw, priv, fn))
                if ('"' + fn + '"') in sidx: cnt['hidden-in-searchindex'] += 1; ex.setdefault('hidden-in-searchindex', (kw, priv, fn))
            vis = {o.fullName() for o in s.allobjects.values() if o.isVisible and ' ' not in o.fullName()}
            if invnames != vis: cnt['inventory-mismatch'] += 1; ex.setdefault('inventory-mismatch', (kw, priv, sorted(invnames ^ vis)))
            # private marker on listing entries: in tables (tr), sidebar (li), moduleIndex li
            purl = {o.url: o for o in private}
            for f in files:
                if not f.endswith('.html'): continue
                lp = LP(); lp.feed(open(os.path.join(out, f), encoding='utf-8').read())
                for chain, href in lp.items:
                    target = href if not href.startswith('#') else f + href
                    if target in purl:
                        listing = any(('children' in c or 'sidebar' in c or 'childlist' in c) for c in chain) or f in ('moduleIndex.html',)
                        # entry-level marker: some ancestor has 'private' in class
                        if f == 'moduleIndex.html' or any(c.startswith('item') or 'base' in c for c in chain):
                            if not any('private' in c for c in chain):
                                cnt['private-unmarked:' + f.split('.')[-2][:12]] += 1; ex.setdefault('private-unmarked', (kw, priv, f, href, chain))
        finally:
            shutil.rmtree(out)
OPTS.privacy = []
print('runs', n, dict(cnt))
for k, v in ex.items(): print(k, repr(v)[:600])
