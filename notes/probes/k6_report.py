from pydoctor import model
from pydoctor.options import Options
OPTS = Options.defaults()
OPTS.verbosity = -3
SYS = model.System(OPTS)
MOD = model.Module(SYS, 'm'); MOD.parentMod = MOD
SYS.addObject(MOD)

def h_report(doc_lineno: int, lineno: int, off: int, section_docstring: bool, is_mod: bool) -> bool:
    """
    pre: doc_lineno >= 0 and lineno >= 0 and off >= 0
    post: _
    """
    msgs = []
    SYS.msg = lambda section, msg, thresh=0, **kw: msgs.append((section, msg, thresh))
    if is_mod:
        o = MOD
    else:
        o = model.Function(SYS, 'f', MOD); o.parentMod = MOD
    o.docstring_lineno = doc_lineno
    o.linenumber = lineno
    o.report('D', section='docstring' if section_docstring else 'parsing', lineno_offset=off)
    (sec, msg, th), = msgs
    base = (doc_lineno or lineno) if section_docstring else lineno
    if base:
        want = str(base + off)
    elif off and is_mod:
        want = str(off)
    else:
        want = '???'
    return msg == f'm:{want}: D' and th == -1

from pydoctor.astutils import extract_docstring_linenum
import ast
def h_linenum(doc: str, lineno: int) -> bool:
    """
    pre: len(doc) <= 4 and lineno >= 1
    post: _
    """
    node = ast.Constant(value=doc)
    node.lineno = lineno
    got = extract_docstring_linenum(node)
    # expected: lineno + number of newlines before first non-whitespace char
    k = 0
    for ch in doc:
        if ch == '\n': k += 1
        elif not ch.isspace(): break
    return got == lineno + k
