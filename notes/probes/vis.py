import itertools
from collections import Counter
from pydoctor import visitor as V

class N:
    def __init__(self, nid): self.nid=nid; self.kids=[]

def trees(n):
    # all rooted ordered trees with n nodes as parent arrays (preorder numbering)
    out=[]
    def rec(par):
        k=len(par)
        if k==n: out.append(tuple(par)); return
        # new node k attaches to a node on the rightmost path
        p=k-1; cands=[]
        while p!=-1:
            cands.append(p); p=par[p]
        for c in cands: rec(par+[c])
    rec([-1]); return out

def mk_ext(when, log, tag):
    class E(V.VisitorExt): pass
    E.when = when
    E.unknown_visit = lambda self, ob: log.append(('v', tag, ob.nid))
    E.unknown_departure = lambda self, ob: log.append(('d', tag, ob.nid))
    return E
WHEN = {'B': V.When.BEFORE, 'A': V.When.AFTER, 'I': V.When.INNER, 'O': V.When.OUTTER}

def run(par, acts, timing, mode):
    nodes=[N(i) for i in range(len(par))]
    for i,p in enumerate(par):
        if p>=0: nodes[p].kids.append(nodes[i])
    log=[]
    class Main(V.Visitor):
        @classmethod
        def get_children(cls, ob): return ob.kids
        def unknown_visit(self, ob):
            log.append(('v','M',ob.nid))
            a=acts[ob.nid]
            if a==1: raise self.SkipChildren()
            if a==2: raise self.SkipSiblings()
            if a==3: raise self.SkipNode()
            if a==4: raise self.SkipDeparture()
        def unknown_departure(self, ob): log.append(('d','M',ob.nid))
    m=Main(V.ExtList(*[mk_ext(WHEN[t], log, t) for t in timing]))
    try:
        (m.walkabout if mode=='walkabout' else m.walk)(nodes[0])
    except Exception as e:
        return log, type(e).__name__
    return log, None

def check(par, acts, timing, mode, log, exc):
    probs=[]
    if exc: probs.append('escape:'+exc)
    for tag in timing:
        seen=set(); st=[]
        for k,t,n in log:
            if t!=tag: continue
            if k=='v':
                if n in seen: probs.append('twice')
                seen.add(n)
                if st and par[n]!=st[-1] : probs.append('nest')
                st.append(n)
            else:
                if not st or st[-1]!=n: probs.append('unbalanced-depart'); 
                else: st.pop()
        if mode=='walkabout' and st: probs.append('never-left')
    # order per node
    for n in range(len(par)):
        vs=[t for k,t,x in log if k=='v' and x==n]
        ds=[t for k,t,x in log if k=='d' and x==n]
        def order_ok(seq, order):
            idx=[order.index(t) for t in seq]
            return idx==sorted(idx)
        if not order_ok(vs, ['B','O','M','A','I']): probs.append('visit-order')
        if not order_ok(ds, ['B','I','M','A','O']): probs.append('depart-order')
    return probs

cnt=Counter(); ex={}; total=0
for n in (1,2,3,4):
    for par in trees(n):
        for acts in itertools.product(range(5), repeat=n):
            for r in range(5):
                for timing in itertools.combinations('BAIO', r):
                    for mode in ('walkabout',):
                        total+=1
                        log,exc=run(par,acts,timing,mode)
                        for p in set(check(par,acts,timing,mode,log,exc)):
                            key=(p, 'SkipSiblings' if 2 in acts else 'other')
                            cnt[key]+=1; ex.setdefault(key,(par,acts,timing,log))
print('total',total); print(dict(cnt))
for k,v in ex.items(): print(k, v)
