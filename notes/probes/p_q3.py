import z3, time, ast
exec(open('p_q.py').read().split("x = z3.String('x')")[0])
x = z3.String('x')
T = compile_rx(C._TRIPLE_QUOTED_STR_REGEX)
Q = compile_rx(C._QUOTED_STR_REGEX)
def notin(*cs): return z3.Intersect(ANY, z3.Complement(z3.Union(*[lit(c) for c in cs]) if len(cs)>1 else z3.Complement(lit(cs[0])) and z3.Intersect(ANY, z3.Complement(lit(cs[0])))))
def nz(*cs):
    u = lit(cs[0]) if len(cs)==1 else z3.Union(*[lit(c) for c in cs])
    return z3.Intersect(ANY, z3.Complement(u))
def triple(q):
    Qc = lit(q)
    plain = nz(q, 92)                         # not quote, not backslash
    safe_esc = z3.Concat(lit(92), z3.Union(lit(92), lit(q), lit(ord('n')), lit(ord('t')), lit(10), lit(ord(' ')), lit(ord('a'))))
    item = z3.Union(plain, safe_esc)
    # one or two quotes must be followed by an item (so no run of 3, and body does not end with a quote)
    unit = z3.Union(item, z3.Concat(Qc, item), z3.Concat(Qc, Qc, item))
    return z3.Concat(Qc, Qc, Qc, z3.Star(unit), Qc, Qc, Qc)
V3 = z3.Union(triple(34), triple(39))
def query(a, b, name, n=5):
    s = z3.Solver(); s.set('timeout', 120000)
    s.add(z3.InRe(x, a), z3.Not(z3.InRe(x, b)))
    out = []
    for i in range(n):
        t = time.time(); r = s.check()
        if str(r) != 'sat': out.append((str(r), round(time.time()-t,2))); break
        w = s.model()[x].as_string()
        w = w.encode().decode('unicode_escape') if '\\u{' not in w else w
        out.append((w, round(time.time()-t,2)))
        s.add(x != s.model()[x])
    print(name, out)
query(V3, T, 'valid triple literal not detected')
query(T, V3, 'detected as triple but not in my valid grammar')
for w in ["''''''''''", '""""""', "'''a'''", "''''a'''", "'''a''''"]:
    s = z3.Solver(); s.add(z3.InRe(z3.StringVal(w), V3)); print(repr(w), 'in V3:', s.check(), ' in T:', bool(C._TRIPLE_QUOTED_STR_REGEX.match(w)))
    s = z3.Solver(); s.add(z3.InRe(z3.StringVal(w), T)); print('   z3 T:', s.check())
