import itertools, inspect
from collections import Counter
from pydoctor import model
from pydoctor.options import Options
OPTS = Options.defaults(); OPTS.verbosity = -3

def ordered_subsets(items):
    for r in range(len(items)+1):
        for p in itertools.permutations(items, r): yield list(p)

def hierarchies(n):
    names = ['A','B','C','D','E'][:n]
    def rec(i, acc):
        if i == n: yield list(acc); return
        for bs in ordered_subsets(names[:i]):
            yield from rec(i+1, acc + [bs])
    return names, rec(0, [])

cnt = Counter(); ex = {}; total = 0
n = 4
names, hs = hierarchies(n)
for bases in hs:
  for defmask in (0b0001, 0b0011, 0b0101, 0b1010, 0b1111, 0b0110):
    total += 1
    src = ''
    for i, (nm, bs) in enumerate(zip(names, bases)):
        blist = ('(' + ', '.join(bs) + ')') if bs else ''
        body = ''
        if (defmask >> i) & 1:
            doc = f"\n        '''doc {nm}'''" if i % 2 == 0 else ''
            body = f"    def m(self):{doc}\n        pass\n"
        else: body = '    pass\n'
        src += f"class {nm}{blist}:\n{body}"
    # python
    ns = {}; pyerr = None
    try:
        exec(compile(src, '<h>', 'exec'), ns)
    except TypeError as e:
        pyerr = e
    s = model.System(OPTS); msgs = []
    s.msg = lambda section, m, thresh=0, **kw: msgs.append((section, m))
    b = s.systemBuilder(s); b.addModuleString(src, 'h'); b.buildModules()
    if pyerr is not None:
        # find first class python rejects: exec stops there; pydoctor must report mro problem for that class
        bad = None
        for nm in names:
            if nm not in ns: bad = nm; break
        rep = [m for sec, m in msgs if sec == 'mro']
        if not any(('h.' + bad) in m or True for m in rep) or not rep: cnt['inconsistent-not-reported'] += 1; ex.setdefault('inconsistent-not-reported', (src, msgs))
        if ('h.' + bad) not in s.allobjects: cnt['inconsistent-not-documented'] += 1
        continue
    if any(sec == 'mro' for sec, m in msgs): cnt['spurious-mro-warning'] += 1; ex.setdefault('spurious', (src, msgs))
    for nm in names:
        c = s.allobjects['h.' + nm]; pc = ns[nm]
        got = [x.name for x in c.mro()]; want = [k.__name__ for k in pc.__mro__[:-1]]
        if got != want: cnt['mro'] += 1; ex.setdefault('mro', (src, nm, got, want))
        f = c.find('m')
        wantdef = next((k.__name__ for k in pc.__mro__ if 'm' in vars(k)), None)
        if (f.parent.name if f else None) != wantdef: cnt['find'] += 1; ex.setdefault('find', (src, nm))
        if 'm' in c.contents:
            d, src_o = model.get_docstring(c.contents['m'])
            wantdoc = inspect.getdoc(getattr(pc, 'm'))
            if d != wantdoc: cnt['inherited-doc'] += 1; ex.setdefault('inherited-doc', (src, nm, d, wantdoc))
print('cases', total, dict(cnt))
for k, v in ex.items(): print(k, repr(v)[:500])
