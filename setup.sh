#!/bin/sh
# Builds the overlay virtualenv /verif/.venv offline: /venv's site-packages + /repo (working tree,
# by path, so every run sees the current source) + crosshair-tool/z3-solver/cvc5 from the wheelhouse.
# Idempotent; called by MANIFEST.setup_cmd and by ./check when .venv is missing.
set -e
cd "$(dirname "$0")"
export PIP_NO_INDEX=1
V="$(pwd)/.venv"
if [ -x "$V/bin/python" ] && "$V/bin/python" -c 'import crosshair, z3, pydoctor' 2>/dev/null; then
  exit 0
fi
rm -rf "$V"
/venv/bin/python -m venv "$V"
SP=$("$V/bin/python" -c 'import sysconfig; print(sysconfig.get_paths()["purelib"])')
printf '%s\n%s\n' "import site; site.addsitedir('/venv/lib/python3.12/site-packages')" "/repo" > "$SP/verif_overlay.pth"
"$V/bin/python" -m pip install -q --no-index --find-links /opt/veriftools/wheels crosshair-tool z3-solver cvc5 >/dev/null
"$V/bin/python" -c 'import crosshair, z3, pydoctor, sys; assert pydoctor.__file__.startswith("/repo/"), pydoctor.__file__'
echo "setup ok"
