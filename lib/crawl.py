"""Render a System with the real TemplateWriter into a scratch directory and examine the output (C11, C12).

render(system, theme) -> Output (files parsed with the standard html.parser into light trees; objects.inv decoded;
search files loaded).  The directory is removed by Output.close().
"""
import json
import os
import shutil
import tempfile
import urllib.parse
import zlib
from html.parser import HTMLParser
from pathlib import Path

import importlib.resources as ir

from pydoctor import model
from pydoctor.sphinx import SphinxInventoryWriter
from pydoctor.templatewriter import TemplateLookup
from pydoctor.templatewriter.writer import TemplateWriter

VOID = {"meta", "link", "br", "img", "input", "hr", "wbr", "area", "base", "col", "embed", "source", "track", "param"}


class El:
    __slots__ = ("tag", "attrs", "children", "parent", "text", "content")

    def __init__(self, tag, attrs, parent):
        self.tag, self.attrs, self.parent, self.children, self.text = tag, attrs, parent, [], []
        self.content = []      # text chunks and child elements in document order

    def cls(self):
        return (self.attrs.get("class") or "").split()

    def walk(self):
        yield self
        for c in self.children:
            yield from c.walk()

    def first(self, pred):
        for e in self.walk():
            if e is not self and pred(e):
                return e
        return None

    def alltext(self):
        return "".join(c if isinstance(c, str) else c.alltext() for c in self.content)

    def ancestors(self):
        p = self.parent
        while p is not None:
            yield p
            p = p.parent


class _Tree(HTMLParser):
    def __init__(self):
        super().__init__(convert_charrefs=True)
        self.root = El("#root", {}, None)
        self.cur = self.root

    def handle_starttag(self, tag, attrs):
        e = El(tag, {k: (v if v is not None else "") for k, v in attrs}, self.cur)
        self.cur.children.append(e)
        self.cur.content.append(e)
        if tag not in VOID:
            self.cur = e

    def handle_startendtag(self, tag, attrs):
        e = El(tag, {k: (v if v is not None else "") for k, v in attrs}, self.cur)
        self.cur.children.append(e)
        self.cur.content.append(e)

    def handle_endtag(self, tag):
        n = self.cur
        while n is not None and n.tag != tag:
            n = n.parent
        if n is not None and n.parent is not None:
            self.cur = n.parent

    def handle_data(self, data):
        self.cur.text.append(data)
        self.cur.content.append(data)


def parse_html(text):
    t = _Tree()
    t.feed(text)
    t.close()
    return t.root


class Output:
    def __init__(self, directory):
        self.dir = directory
        self.files = set()
        for base, _dirs, fs in os.walk(directory):
            for f in fs:
                self.files.add(os.path.relpath(os.path.join(base, f), directory))
        self.pages = {}
        for f in self.files:
            if f.endswith(".html"):
                with open(os.path.join(directory, f), encoding="utf-8") as fh:
                    self.pages[f] = parse_html(fh.read())
        self.anchors = {f: {e.attrs[k] for e in root.walk() for k in ("id", "name") if k in e.attrs and e.tag != "meta"}
                        for f, root in self.pages.items()}
        self.inventory = None
        p = os.path.join(directory, "objects.inv")
        if os.path.exists(p):
            data = open(p, "rb").read().split(b"\n", 4)[4]
            self.inventory = {}
            for ln in zlib.decompress(data).decode("utf-8").splitlines():
                parts = ln.split(" ")
                self.inventory[parts[0]] = parts[3]

    def read(self, name):
        with open(os.path.join(self.dir, name), encoding="utf-8") as fh:
            return fh.read()

    def links(self):
        """(page, element, attribute, raw url) for every href/src"""
        for f, root in self.pages.items():
            for e in root.walk():
                for k in ("href", "src"):
                    if k in e.attrs:
                        yield f, e, k, e.attrs[k]

    def resolve(self, page, url):
        """-> (target file, fragment) or None for external urls"""
        u = urllib.parse.urlsplit(url)
        if u.scheme or u.netloc:
            return None
        path = urllib.parse.unquote(u.path)
        return (page if path == "" else path, urllib.parse.unquote(u.fragment))

    def close(self):
        shutil.rmtree(self.dir, ignore_errors=True)


def render(system, theme="classic", inventory=True, into=None):
    """into: an existing directory to write into (e.g. one that already holds a previous run's output)"""
    out = into or tempfile.mkdtemp(prefix="verif_render_")
    try:
        tl = TemplateLookup(ir.files("pydoctor.themes") / "base")
        if theme != "base":
            tl.add_templatedir(ir.files("pydoctor.themes") / theme)
        w = TemplateWriter(Path(out), tl)
        w.prepOutputDirectory()
        w.writeSummaryPages(system)
        w.writeIndividualFiles(system.rootobjects)
        if inventory:
            SphinxInventoryWriter(logger=lambda *a, **k: None, project_name="p", project_version="1").generate(system.rootobjects, out)
        return Output(out)
    except BaseException:
        shutil.rmtree(out, ignore_errors=True)
        raise


def dead_links(o):
    """C11: every relative href/src resolves to a written file and an existing anchor"""
    probs = []
    for page, _e, _k, url in o.links():
        r = o.resolve(page, url)
        if r is None:
            continue
        target, frag = r
        if target not in o.files:
            probs.append(("dead-file", page, url))
        elif frag and target in o.anchors and frag not in o.anchors[target]:
            probs.append(("dead-anchor", page, url))
    # url fields of the search documents
    if "all-documents.html" in o.pages:
        for e in o.pages["all-documents.html"].walk():
            if e.tag == "div" and "url" in e.cls():
                url = e.alltext().strip()
                r = o.resolve("all-documents.html", url)
                if r is None:
                    continue
                target, frag = r
                if target not in o.files:
                    probs.append(("dead-file", "all-documents.html(url)", url))
                elif frag and frag not in o.anchors.get(target, ()):
                    probs.append(("dead-anchor", "all-documents.html(url)", url))
    return probs


def split_url(url):
    u = urllib.parse.urlsplit(url)
    return urllib.parse.unquote(u.path), urllib.parse.unquote(u.fragment)


def missing_pages(o, system, visible):
    """C11: every visible own-page object has its file at its url, every visible member its anchor"""
    probs = []
    for ob in system.allobjects.values():
        if ob.fullName() not in visible:
            continue
        path, frag = split_url(ob.url)
        if path not in o.pages:
            probs.append(("missing-page", ob.fullName(), ob.url))
        elif frag and frag not in o.anchors[path]:
            probs.append(("missing-anchor", ob.fullName(), ob.url))
    return probs


def hidden_traces(o, system, hidden):
    """C12: a hidden object leaves no trace. hidden: iterable of Documentable."""
    probs = []
    hidden = list(hidden)
    hidden_urls = {}
    for ob in hidden:
        hidden_urls[split_url(ob.url)] = ob.fullName()
    search_texts = {}
    for f in ("searchindex.json", "fullsearchindex.json"):
        if f in o.files:
            search_texts[f] = o.read(f)
    alldoc_ids = set()
    if "all-documents.html" in o.pages:
        alldoc_ids = {e.attrs["id"] for e in o.pages["all-documents.html"].walk() if e.tag == "li" and "id" in e.attrs}
    for ob in hidden:
        fn = ob.fullName()
        path, frag = split_url(ob.url)
        if not frag and path in o.files and ob.documentation_location is model.DocLocation.OWN_PAGE:
            # index.html belongs to the root only when the root is this object
            probs.append(("hidden-has-page", fn, path))
        if frag and path in o.anchors and frag in o.anchors[path] and not _anchor_owned_by_visible(system, ob, hidden):
            probs.append(("hidden-has-anchor", fn, ob.url))
        if o.inventory is not None and fn in o.inventory:
            probs.append(("hidden-in-inventory", fn, ""))
        if fn in alldoc_ids:
            probs.append(("hidden-in-all-documents", fn, ""))
        for f, txt in search_texts.items():
            if json.dumps(fn) in txt:
                probs.append(("hidden-in-" + f, fn, ""))
    for page, _e, _k, url in o.links():
        r = o.resolve(page, url)
        if r is None:
            continue
        if r in hidden_urls:
            probs.append(("link-to-hidden", page, url))
    # index pages (class hierarchy, name index) name their rows by full name: <a name="pkg.mod.Class">, id="..."
    hidden_names = {ob.fullName() for ob in hidden}
    for page, root in o.pages.items():
        for e in root.walk():
            for k in ("id", "name"):
                if e.attrs.get(k) in hidden_names and e.tag != "meta":
                    probs.append(("hidden-named-anchor", page, e.attrs[k]))
    return probs


def _anchor_owned_by_visible(system, ob, hidden):
    """an anchor #name on a parent's page may legitimately belong to a visible sibling of the same name (never in our models)"""
    return False


def _entry_target(o, page, el):
    a = el.first(lambda e: e.tag == "a" and "href" in e.attrs)
    if a is None:
        return None
    r = o.resolve(page, a.attrs["href"])
    return r


def private_markers(o, system, private):
    """C12: every listing entry for a PRIVATE object carries the private marker.
    private: iterable of Documentable that are visible and PRIVATE.  Returns problems and the number of entries seen."""
    by_url = {split_url(ob.url): ob.fullName() for ob in private}
    by_name = {ob.fullName() for ob in private}
    probs = []
    seen = 0
    for page, root in o.pages.items():
        if page == "all-documents.html":
            for e in root.walk():
                if e.tag == "li" and e.attrs.get("id") in by_name:
                    seen += 1
                    pv = e.first(lambda d: d.tag == "div" and "privacy" in d.cls())
                    if pv is None or pv.alltext().strip() != "PRIVATE":
                        probs.append(("private-unmarked", page, e.attrs["id"]))
            continue
        for e in root.walk():
            entry = None
            if e.tag == "li" and any(c.tag == "div" and "itemName" in c.cls() for c in e.children):
                entry = "sidebar"
            elif e.tag == "tr" and any("children" in a.cls() for a in e.ancestors() if a.tag == "table"):
                entry = "table"
            elif e.tag == "li" and any(a.attrs.get("id") == "summaryTree" for a in e.ancestors()):
                entry = "moduleIndex"
            elif e.tag == "div" and any(c.startswith("base") for c in e.cls()):
                entry = "detail"
            if entry is None:
                continue
            if entry == "detail":
                a = e.first(lambda d: d.tag == "a" and "name" in d.attrs)
                if a is None:
                    continue
                target = (page, a.attrs["name"].rsplit(".", 1)[-1])
                if a.attrs["name"] not in by_name:
                    continue
            elif entry == "moduleIndex":
                code = next((c for c in e.children if c.tag == "code"), None)
                a = code.first(lambda d: d.tag == "a" and "href" in d.attrs) if code is not None else None
                if a is None:
                    continue
                target = o.resolve(page, a.attrs["href"])
                if target not in by_url:
                    continue
            else:
                target = _entry_target(o, page, e)
                if target not in by_url:
                    continue
            seen += 1
            if "private" not in e.cls():
                probs.append(("private-unmarked:" + entry, page, repr(target)))
    return probs, seen
