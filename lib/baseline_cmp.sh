#!/bin/sh
# Runs /repo's suite and compares with BASELINE.json's stable_pass list. usage: lib/baseline_cmp.sh
OUT=$(mktemp /tmp/junit.XXXXXX.xml)
(cd /repo && /venv/bin/python -m pytest -ra -q -p no:cacheprovider --timeout=900 --continue-on-collection-errors --junitxml=$OUT >/dev/null 2>&1)
/venv/bin/python - "$OUT" <<'PY'
import json, sys, xml.etree.ElementTree as ET
base = set(json.load(open('/root/.vp/BASELINE.json'))['stable_pass'])
passed = set()
for tc in ET.parse(sys.argv[1]).getroot().iter('testcase'):
    if not any(ch.tag in ('failure', 'error', 'skipped') for ch in tc):
        passed.add(tc.get('classname') + '::' + tc.get('name'))
missing = sorted(base - passed)
print('baseline stable_pass:', len(base), 'passed now:', len(passed), 'baseline tests not passing now:', len(missing))
for m in missing[:20]: print('  MISSING', m)
sys.exit(1 if missing else 0)
PY
rc=$?
rm -f $OUT
exit $rc
