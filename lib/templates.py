"""Project-shape templates shared by C02, C06, C07, C11: a package `pkg` with a defining module `_impl`, an optional
re-exporter (the package __init__ or a sibling `api`), an optional consumer `user`, optional zope interfaces.
gen(**shape) -> (sources {modname: (text, is_package)}, exporter module name or None, exported name)."""
import itertools

from pydoctor import model

DIMS = dict(
    xkind=["class", "func"],
    dup=["none", "same", "other", "ifelse", "nested", "member"],
    nested=[False, True],
    reexp=["none", "pkg_plain", "pkg_renamed", "pkg_star", "sib_plain", "pkg_twice", "pkg_plain_star"],
    origin_all=["absent", "without", "with"],
    local_def=["none", "before", "after"],
    consumer=["none", "old", "new", "both", "modalias"],
    cycle=[False, True],
)
KEYS = list(DIMS)


def valid(kw):
    if kw["reexp"] == "none" and kw["local_def"] != "none":
        return False
    return True


def gen(xkind, dup, nested, reexp, origin_all, local_def, consumer, cycle, zope=False, fielddoc=False, shadow=False, samename=False, accel=False, via=False, submod=False):
    def defx(tag):
        if xkind == "class":
            doc = f"X {tag}" + ("\n\n    @ivar fld: documented only here\n    " if fielddoc else "")
            s = (f"class X:\n    '''{doc}'''\n    helper{tag} = 1\n    '''helper'''\n"
                 f"    def m{tag}(self):\n        '''m, see L{{helper{tag}}} and L{{X.helper{tag}}}'''\n")
            if nested:
                s += "    class N:\n        def n(self): pass\n"
            return s
        # a function whose default value names a sibling (its linker is created while the module is built)
        return f"def X(a: LIMIT = sibling):\n    '''X {tag}, see L{{sibling}}'''\n"

    def defother(tag):
        if xkind == "class":
            return f"def X():\n    '''Xf {tag}'''\n"
        return f"class X:\n    '''Xc {tag}'''\n    def o(self): pass\n"

    impl = ""
    if shadow:
        # the defining module first star-imports another X, which its own definition then overrides
        impl += "from pkg._base import *\n"
    if cycle and consumer != "none":
        impl += "from typing import TYPE_CHECKING\nif TYPE_CHECKING:\n    from pkg import user\n"
    if zope:
        impl += "from zope.interface import Interface, implementer\nclass IX(Interface):\n    '''IX'''\n    def im(): pass\n"
        # interfaces created by calling an in-project subclass of InterfaceClass: at module level, and - where they are locals, not
        # documented objects - inside a function and a method
        impl += ("from zope.interface.interface import InterfaceClass\nclass VI(InterfaceClass):\n    '''VI'''\nIMod = VI('IMod')\n"
                 "def make_iface(name):\n    '''make'''\n    IDyn = VI(name)\n    return IDyn\n"
                 "class Registry:\n    '''Registry'''\n    def register(self, name):\n        IReg = VI(name)\n        return IReg\n")
    if origin_all == "without":
        impl += "__all__ = ['Y']\n"
    elif origin_all == "with":
        impl += "__all__ = ['X', 'Y']\n"
    impl += "class Y:\n    '''Y'''\n"
    impl += "def sibling():\n    '''sibling'''\n"
    # a module-level variable named in a class header (subscript of a base) and in an annotation: links from a class page / from
    # the page a function is moved to, to an anchor on THIS module's page
    impl += "from typing import Generic\nLIMIT = 3\n'''LIMIT doc'''\nclass Holder(Generic[LIMIT]):\n    '''Holder of L{LIMIT}'''\n"
    deco = "@implementer(IX)\n" if (zope and xkind == "class") else ""
    if dup == "ifelse":
        impl += "if 1:\n" + "".join("    " + ln + "\n" for ln in (deco + defx(1)).splitlines())
        impl += "else:\n" + "".join("    " + ln + "\n" for ln in (deco + defx(2)).splitlines())
    else:
        impl += deco + defx(1)
        if dup == "same":
            impl += deco + defx(2)
        elif dup == "nested":
            # a member defined twice inside a definition that is itself superseded later
            if xkind == "class":
                impl += "    def m1(self):\n        '''m again'''\n"
            impl += deco + defx(2)
        elif dup == "other":
            impl += defother(2)
        elif dup == "member" and xkind == "class":
            # a member defined twice inside the (single, possibly moved) definition: the older one is superseded but stays registered
            impl += "    def m1(self):\n        '''m again'''\n"
            # a property with a setter (documented as a SIBLING named 'prop.setter'), then the property's name defined again
            impl += ("    @property\n    def prop(self):\n        '''prop'''\n    @prop.setter\n    def prop(self, v):\n        pass\n"
                     "    @property\n    def prop(self):\n        '''prop again'''\n")
    if accel:
        # the "optional accelerator" idiom: the defining module also binds the name by an import that fails at run time
        impl += "try:\n    from _speedups import X\nexcept ImportError:\n    pass\n"
    init = "'''pkg'''\n"
    sib = None
    newname = "X"
    exporter = None

    def local():
        return f"class {newname}:\n    '''local'''\n    def loc(self): pass\n"

    if reexp.startswith("pkg"):
        exporter = "pkg"
        if reexp == "pkg_renamed":
            newname = "Z"
        body = f"__all__ = ['{newname}']\n"
        if local_def == "before":
            body += local()
        if via and reexp in ("pkg_plain", "pkg_star", "pkg_renamed"):
            # the package imports the name from an INTERMEDIATE module that itself imported it (a facade): pkg._api has no __all__
            body += {"pkg_plain": "from pkg._api import X\n", "pkg_star": "from ._api import *\n", "pkg_renamed": "from ._api import X as Z\n"}[reexp]
        elif reexp == "pkg_plain":
            body += "from pkg._impl import X\n"
        elif reexp == "pkg_twice":
            body += "from pkg._impl import X\nfrom pkg._impl import X\n"
        elif reexp == "pkg_plain_star":
            body += "from pkg._impl import X\nfrom ._impl import *\n"
        elif reexp == "pkg_renamed":
            body += "from ._impl import X as Z\n"
        else:
            body += "from ._impl import *\n"
        if local_def == "after":
            body += local()
        init += body
    elif reexp == "sib_plain":
        exporter = "pkg.api"
        sib = "__all__ = ['X']\n"
        if local_def == "before":
            sib += local()
        sib += "from ._impl import X\n"
        if local_def == "after":
            sib += local()
    user = None
    if consumer != "none":
        user = ""
        exp = exporter or "pkg._impl"
        if consumer == "old":
            user += "from pkg._impl import X as B\n"
        elif consumer == "new":
            user += f"from {exp} import {newname} as B\n"
        elif consumer == "both":
            user += f"from pkg._impl import X as B0\nfrom {exp} import {newname} as B\n"
        elif consumer == "modalias_root":
            # module alias plus a local name equal to the root package's name
            user += "import pkg._impl as mm\npkg = 1\nB = mm.X\n"
        elif consumer == "modattr":
            user += "from pkg import _impl\nB = _impl.X\n"
        else:
            user += "import pkg._impl as mm\nB = mm.X\n"
        if xkind == "class":
            user += "class U(B):\n    '''U, see L{B} and L{pkg._impl.X}'''\n    def m1(self):\n        pass\n"
        else:
            user += "def u(a: B):\n    '''u, see L{B}'''\n"
    sources = {"pkg": (init, True), "pkg._impl": (impl, False)}
    if via and reexp in ("pkg_plain", "pkg_star", "pkg_renamed"):
        sources["pkg._api"] = ("from pkg._impl import X\n", False)
    if samename:
        # a sub-module named like the (single) root package, and a member of the root package itself
        sources["pkg.pkg"] = ("def area():\n    '''area, see L{pkg.rootfn}'''\n", False)
        sources["pkg"] = (sources["pkg"][0] + "def rootfn():\n    '''root function, see L{pkg.pkg.area}'''\n", True)
    if submod:
        # a sub-module re-exported by a PLAIN module (not a package)
        sources["pkg.sub"] = ("'''sub'''\nsubvar = 1\n", False)
        sources["pkg.plain"] = ("'''plain'''\nfrom pkg import sub\n__all__ = ['sub']\n", False)
    if shadow:
        sources["pkg._base"] = ("class X:\n    '''base X'''\n    def bm(self): pass\n" if xkind == "class" else "def X():\n    '''base X'''\n", False)
    if sib is not None:
        sources["pkg.api"] = (sib, False)
    if user is not None:
        sources["pkg.user"] = (user, False)
    return sources, exporter, newname


# ------------------------------------------------------------------ C02 invariants
def invariants(s):
    """-> list of violated invariants (empty when the model is coherent)"""
    bad = []
    for k, o in s.allobjects.items():
        if o.fullName() != k:
            bad.append(("I1 registered under a name that is not its qualified name", k, o.fullName()))
    reach = {}

    def walk(o):
        reach[id(o)] = o
        for n, c in o.contents.items():
            if c.name != n:
                bad.append(("I2 entry name differs from object name", o.fullName(), n, c.name))
            if c.parent is not o:
                bad.append(("I2 parent of an entry is not the container", c.fullName(), o.fullName()))
            walk(c)

    for r in s.rootobjects:
        walk(r)
    for o in reach.values():
        if s.allobjects.get(o.fullName()) is not o:
            bad.append(("I3 reachable object is not the registered one", o.fullName()))
    for k, o in s.allobjects.items():
        if id(o) in reach:
            continue
        p, sup = o, False
        while p is not None:
            if " " in p.name:
                sup = True
            p = p.parent
        if not sup:
            bad.append(("I3 registered object unreachable from any root and not a superseded definition", k))
    for o in s.allobjects.values():
        if isinstance(o, model.Function) and isinstance(o.parent, model.Class):
            if o.kind not in (model.DocumentableKind.METHOD, model.DocumentableKind.CLASS_METHOD, model.DocumentableKind.STATIC_METHOD):
                bad.append(("I4 function directly in a class is not a method kind", o.fullName(), str(o.kind)))
        if isinstance(o, model.Module) and o.parent is not None and not isinstance(o.parent, model.Package):
            bad.append(("I4 module outside a package", o.fullName()))
        if isinstance(o, (model.Function, model.Attribute)) and o.contents:
            bad.append(("I4 function/variable with children", o.fullName()))
        if isinstance(o, model.Class):
            m = o.mro()
            if not m or m[0] is not o:
                bad.append(("I5 linearisation does not start with the class", o.fullName()))
            for b_ in o.baseobjects:
                if b_ is not None and list(m).count(b_) != 1:
                    bad.append(("I5 resolved base not exactly once in the linearisation", o.fullName(), b_.fullName()))
                if b_ is not None and b_.subclasses.count(o) != o.baseobjects.count(b_):
                    bad.append(("I6 'subclass of' is not the inverse of 'base of'", o.fullName(), b_.fullName()))
            for sc in o.subclasses:
                if o not in sc.baseobjects:
                    bad.append(("I6 subclass entry without matching base", o.fullName(), sc.fullName()))
            for iface in getattr(o, "implements_directly", []) or []:
                io = s.objForFullName(iface) if isinstance(iface, str) else None
                if io is not None and o not in getattr(io, "implementedby_directly", []):
                    bad.append(("I7 'implemented by' is not the inverse of 'implements'", o.fullName(), iface))
            for impl_ in getattr(o, "implementedby_directly", []) or []:
                if o.fullName() not in getattr(impl_, "implements_directly", []):
                    bad.append(("I7 'implements' is not the inverse of 'implemented by'", o.fullName(), impl_.fullName()))
    urls = {}
    for o in s.allobjects.values():
        if o.documentation_location is model.DocLocation.OWN_PAGE and " " not in o.fullName():
            if o.url in urls and urls[o.url] is not o:
                bad.append(("I8 two pages share a file name", o.url))
            urls[o.url] = o
    return bad


# ------------------------------------------------------------------ C06 canonical dump
def dump(s, hierarchy_only=False):
    d = {}
    for k, o in s.allobjects.items():
        rec = [type(o).__name__]
        if isinstance(o, model.Class):
            rec += [tuple(o.bases), tuple(b.fullName() if b else None for b in o.baseobjects),
                    tuple(x.fullName() if not isinstance(x, str) else x for x in o.mro(True))]
        if not hierarchy_only:
            rec += [str(o.kind), o.docstring]
        d[k] = tuple(rec)
    return d


def schedules(sources):
    """every reachable processing order: the package's own module first, then its sub-modules in any order"""
    names = sorted(sources, key=lambda n: (n.count("."), n))
    rest = names[1:]
    return [[names[0]] + list(p) for p in itertools.permutations(rest)]


def scheduler(order):
    def reorder(mods):
        by = {m.fullName(): m for m in mods}
        return [by[n] for n in order]
    return reorder
