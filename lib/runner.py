"""Check runner: ./check <ID> [--tier quick|thorough] [--replay PATH] [--only HARNESS]

Runs every harness registered for the property (CrossHair harnesses through lib/xh_driver.py,
direct z3 jobs through lib/z3job.py) in a process pool, replays counterexamples natively, applies
known_findings.json, prints VIOLATION / KNOWN-FINDING / INCONCLUSIVE lines, writes
evidence/<ID>.json.  Exit: 0 held on everything explored; 1 replayed violation; 2 harness error.
"""
import argparse
import ast
import concurrent.futures as cf
import glob
import hashlib
import importlib
import json
import os
import re
import subprocess
import sys
import time

ROOT = os.path.dirname(os.path.dirname(os.path.abspath(__file__)))
PY = os.path.join(ROOT, ".venv", "bin", "python")
REPO = os.environ.get("VERIF_REPO", "/repo")
NPROC = int(os.environ.get("VERIF_JOBS", "16"))


def child_env(tier, part=None, twin=False, ignore_known=False, replay=False):
    env = dict(os.environ)
    env["VERIF_TIER"] = tier
    env["VERIF_PART"] = json.dumps(part)
    env["VERIF_TWIN"] = "1" if twin else "0"
    env["VERIF_IGNORE_KNOWN"] = "1" if ignore_known else "0"
    env["VERIF_REPLAY"] = "1" if replay else "0"
    env["PYTHONPATH"] = REPO + os.pathsep + ROOT
    env["PYTHONHASHSEED"] = env.get("PYTHONHASHSEED", "0")
    env["PYTHONDONTWRITEBYTECODE"] = "1"
    return env


def fn_line(path, name):
    with open(path) as f:
        tree = ast.parse(f.read())
    for node in tree.body:
        if isinstance(node, ast.FunctionDef) and node.name == name:
            return node.body[0].lineno
    raise KeyError(name)


def load_registry(pid, tier):
    os.environ["VERIF_TIER"] = tier
    sys.path.insert(0, ROOT)
    sys.path.insert(0, REPO)
    from lib import hx

    mods = []
    for path in sorted(glob.glob(os.path.join(ROOT, "harness", pid.lower() + "_*.py"))):
        name = "harness." + os.path.basename(path)[:-3]
        before = len(hx.REGISTRY)
        mod = importlib.import_module(name)
        for m in hx.REGISTRY[before:]:
            m["module"] = name
            m["file"] = path
            m["modobj"] = mod
        mods.append(mod)
    return mods, list(hx.REGISTRY)


def tv(meta, key, tier, default=None):
    v = meta.get(key, default)
    if isinstance(v, dict):
        return v.get(tier, default)
    if isinstance(v, tuple):
        return v[0] if tier == "quick" else v[1]
    return v


def make_jobs(reg, tier, only=None):
    jobs = []
    for m in reg:
        if only and m["fn"] not in only:
            continue
        parts = tv(m, "parts", tier)
        if callable(parts):
            parts = parts()
        if not parts:
            parts = [None]
        twin_parts = parts if m.get("twin", "first") == "all" else parts[:1]
        for p in parts:
            jobs.append(dict(meta=m, part=p, twin=False))
        if m["kind"] == "xh":
            for p in twin_parts:
                jobs.append(dict(meta=m, part=p, twin=True))
    return jobs


ERR_RE = re.compile(r"^(?P<file>[^:]+):(?P<line>\d+): error: (?P<msg>.*)$")
INFO_RE = re.compile(r"^(?P<file>[^:]+):(?P<line>\d+): info: (?P<msg>.*)$")


def parse_call(msg, fn):
    """Extracts the argument tuple from CrossHair's '... when calling fn(args) (which ...)'."""
    i = msg.find("when calling " + fn + "(")
    if i < 0:
        return None
    s = msg[i + len("when calling "):]
    # find the matching close paren of the call
    depth = 0
    instr = None
    j = 0
    while j < len(s):
        c = s[j]
        if instr:
            if c == "\\":
                j += 1
            elif c == instr:
                instr = None
        elif c in "'\"":
            instr = c
        elif c in "([{":
            depth += 1
        elif c in ")]}":
            depth -= 1
            if depth == 0:
                break
        j += 1
    call = s[: j + 1]
    try:
        # CrossHair prints python expressions, possibly with walrus aliases (f(v1:=b'', v1)); evaluate them
        # with no builtins but the constructors its reprs use.
        env = {"__builtins__": {}, "float": float, "set": set, "frozenset": frozenset, "bytearray": bytearray,
               "dict": dict, "list": list, "tuple": tuple, "True": True, "False": False, "None": None,
               fn: (lambda *a, **k: (list(a), dict(k)))}
        args, kwargs = eval(call, env)
        json.dumps([_enc(args), _enc(kwargs)], default=_jsonable)
        return {"args": _enc(args), "kwargs": _enc(kwargs), "text": call}
    except Exception:
        return {"args": None, "kwargs": None, "text": call}


def _jsonable(o):
    raise TypeError


def _enc(o):
    """JSON-encodable form of arguments; bytes become {"__bytes__": [..]} (decoded in lib/replay.py)."""
    if isinstance(o, bytes):
        return {"__bytes__": list(o)}
    if isinstance(o, (list, tuple)):
        return [_enc(x) for x in o]
    if isinstance(o, dict):
        return {k: _enc(v) for k, v in o.items()}
    return o


def run_xh(job, tier):
    m = job["meta"]
    T = tv(m, "timeout", tier, 120)
    if job["twin"]:
        T = min(T, 120)
    line = fn_line(m["file"], m["fn"])
    cmd = [PY, "-m", "lib.xh_driver", "%s:%d" % (m["file"], line), "--report_all", "--per_condition_timeout", str(T)]
    pp = tv(m, "per_path", tier, None)
    cmd += ["--per_path_timeout", str(pp if pp else max(10, T // 4))]
    if m.get("max_uninteresting"):
        cmd += ["--max_uninteresting_iterations", str(m["max_uninteresting"])]
    if m.get("unblock"):
        cmd += ["--unblock"] + list(m["unblock"])
    t0 = time.time()
    try:
        p = subprocess.run(cmd, cwd=ROOT, env=child_env(tier, job["part"], job["twin"]),
                           capture_output=True, text=True, timeout=T * 2 + 120)
        out, err, rc = p.stdout, p.stderr, p.returncode
    except subprocess.TimeoutExpired as e:
        out = (e.stdout or b"").decode() if isinstance(e.stdout, bytes) else (e.stdout or "")
        err, rc = "wall-clock kill", -9
    res = dict(harness=m["fn"], module=m["module"], part=job["part"], twin=job["twin"],
               wall_s=round(time.time() - t0, 2), rc=rc, verdict="inconclusive", detail="",
               confirmed_paths=0, iterations=0, cex=None)
    for ln in out.splitlines():
        if ln.startswith("XHSTAT "):
            st = json.loads(ln[7:])
            if st["fn"] == m["fn"]:
                res["confirmed_paths"] = st["confirmed_paths"]
                if st.get("done_reached") is not None:   # leaves that reached the harness's final assertion
                    res["confirmed_paths"] = min(st["confirmed_paths"], st["done_reached"])
                res["iterations"] = st["iterations"]
            continue
        me = ERR_RE.match(ln)
        if me:
            res["verdict"] = "counterexample"
            res["detail"] = me.group("msg")
            res["cex"] = parse_call(me.group("msg"), m["fn"])
            continue
        mi = INFO_RE.match(ln)
        if mi:
            msg = mi.group("msg")
            if msg.startswith("Confirmed over all paths"):
                res["verdict"] = "confirmed"
            elif msg.startswith("Unable to meet precondition"):
                res["verdict"] = "unreached"
                res["detail"] = msg
            else:
                res["verdict"] = "inconclusive"
                res["detail"] = msg
    if res["verdict"] == "inconclusive" and not res["detail"]:
        res["detail"] = (err or out)[-400:]
    return res


def run_z3(job, tier):
    m = job["meta"]
    T = tv(m, "timeout", tier, 600)
    cmd = [PY, "-m", "lib.z3job", m["module"], m["fn"]]
    t0 = time.time()
    try:
        p = subprocess.run(cmd, cwd=ROOT, env=child_env(tier, job["part"]), capture_output=True,
                           text=True, timeout=T)
        out, err, rc = p.stdout, p.stderr, p.returncode
    except subprocess.TimeoutExpired:
        out, err, rc = "", "wall-clock kill", -9
    res = dict(harness=m["fn"], module=m["module"], part=job["part"], twin=False,
               wall_s=round(time.time() - t0, 2), rc=rc, verdict="inconclusive", detail="",
               confirmed_paths=0, iterations=0, cex=None, z3=None)
    for ln in out.splitlines():
        if ln.startswith("Z3JOB "):
            r = json.loads(ln[6:])
            res["z3"] = r
            res["iterations"] = r.get("queries", 0)
            res["confirmed_paths"] = r.get("nontrivial", r.get("unsat", 0))
            if r.get("error"):
                res["verdict"] = "harness_error"
                res["detail"] = r["error"]
            elif r.get("violations"):
                res["verdict"] = "counterexample"
                res["detail"] = json.dumps(r["violations"][0])[:300]
            elif r.get("unknown", 0) or r.get("unreplayed", 0):
                res["verdict"] = "inconclusive"
                res["detail"] = "%d unknown, %d unreplayed" % (r.get("unknown", 0), r.get("unreplayed", 0))
            else:
                res["verdict"] = "confirmed"
    if res["z3"] is None:
        res["detail"] = (err or out)[-600:]
        if rc not in (0, -9):
            res["verdict"] = "harness_error"
    return res


def run_job(args):
    job, tier = args
    if job["meta"]["kind"] == "xh":
        return run_xh(job, tier)
    return run_z3(job, tier)


def native_replay(module, fn, part, args, kwargs, tier, ignore_known=False):
    """Calls the harness natively in a fresh interpreter. -> (reproduced, info)"""
    payload = json.dumps({"module": module, "fn": fn, "args": args, "kwargs": kwargs or {}})
    try:
        p = subprocess.run([PY, "-m", "lib.replay"], input=payload, cwd=ROOT,
                           env=child_env(tier, part, False, ignore_known, True),
                           capture_output=True, text=True, timeout=600)
    except subprocess.TimeoutExpired:
        return None, {"error": "replay timeout"}
    for ln in p.stdout.splitlines():
        if ln.startswith("REPLAY "):
            info = json.loads(ln[7:])
            return info["failed"], info
    return None, {"error": (p.stderr or p.stdout)[-600:]}


def load_known(pid):
    try:
        with open(os.path.join(ROOT, "known_findings.json")) as f:
            data = json.load(f)
    except FileNotFoundError:
        return []
    return [e for e in data.get("findings", []) if e.get("property") == pid]


def do_replay(path, tier):
    with open(path) as f:
        r = json.load(f)
    failed, info = native_replay(r["module"], r["harness"], r.get("part"), r["args"], r.get("kwargs"),
                                 r.get("tier", tier))
    print(json.dumps(info, indent=1))
    if failed:
        print("VIOLATION property=%s replay=%s" % (r["property"], path))
        return 1
    if failed is None:
        print("replay error")
        return 2
    print("replay: harness holds on this input now")
    return 0


def main():
    ap = argparse.ArgumentParser()
    ap.add_argument("pid")
    ap.add_argument("--tier", default=os.environ.get("VERIF_TIER", "quick"), choices=["quick", "thorough"])
    ap.add_argument("--replay")
    ap.add_argument("--only", action="append")
    ap.add_argument("--no-evidence", action="store_true")
    a = ap.parse_args()
    pid, tier = a.pid.upper(), a.tier
    if a.replay:
        return do_replay(a.replay, tier)
    seed = int(os.environ.get("VERIF_SEED", "0") or 0)
    t0 = time.time()
    mods, reg = load_registry(pid, tier)
    if not reg:
        print("no harness registered for", pid)
        return 2
    jobs = make_jobs(reg, tier, a.only)
    # longest first
    jobs.sort(key=lambda j: (j["twin"], -tv(j["meta"], "weight", tier, 1)))
    results = []
    with cf.ThreadPoolExecutor(max_workers=NPROC) as ex:
        for r in ex.map(run_job, [(j, tier) for j in jobs]):
            results.append(r)
            tag = "twin " if r["twin"] else ""
            print("  [%s%s part=%s] %s paths=%d/%d %.1fs %s" % (
                tag, r["harness"], json.dumps(r["part"]), r["verdict"], r["confirmed_paths"],
                r["iterations"], r["wall_s"], r["detail"][:160].replace("\n", " ")), flush=True)

    violations, errors, inconclusive, samples = [], [], [], []
    os.makedirs(os.path.join(ROOT, "replays"), exist_ok=True)
    for r in results:
        key = "%s[%s]" % (r["harness"], json.dumps(r["part"]))
        if r["twin"]:
            if r["verdict"] == "counterexample":
                if r["cex"] and len(samples) < 12:
                    smp = {"harness": r["harness"], "part": r["part"], "reaching_input": r["cex"]["text"]}
                    if r["cex"]["args"] is not None:
                        # what that input looks like: replay the (non-twin) harness natively and keep what it recorded
                        _f, info = native_replay(r["module"], r["harness"], r["part"], r["cex"]["args"], r["cex"]["kwargs"], tier)
                        recs = [{k: (v if not isinstance(v, str) else v[:600]) for k, v in n.items() if k != "_sample"} for n in (info.get("notes") or []) if n.get("_sample")]
                        if recs:
                            smp["case"] = recs[0]
                    samples.append(smp)
            else:
                errors.append("vacuity twin of %s not refuted (%s %s)" % (key, r["verdict"], r["detail"][:200]))
            continue
        if r["verdict"] == "counterexample":
            if r.get("z3") is not None:
                for v in r["z3"]["violations"]:
                    violations.append((r, v))
                continue
            cex = r["cex"]
            if not cex or cex["args"] is None:
                errors.append("counterexample of %s could not be parsed: %s" % (key, r["detail"][:300]))
                continue
            failed, info = native_replay(r["module"], r["harness"], r["part"], cex["args"], cex["kwargs"], tier)
            if failed:
                violations.append((r, {"args": cex["args"], "kwargs": cex["kwargs"], "call": cex["text"],
                                       "message": r["detail"], "native": info}))
            else:
                errors.append("counterexample of %s does not reproduce natively: %s / %s" % (
                    key, cex["text"], json.dumps(info)[:300]))
        elif r["verdict"] == "harness_error":
            errors.append("%s: %s" % (key, r["detail"][:400]))
        elif r["verdict"] != "confirmed":
            inconclusive.append(r)

    # known findings: replay each listed witness without the excuse
    for e in load_known(pid):
        if e.get("status") != "known":
            continue
        mod, fn = e["harness"].split(":")
        if a.only and fn not in a.only:
            continue
        failed, info = native_replay(mod, fn, e.get("part"), e.get("args", []), e.get("kwargs"), tier, ignore_known=True)
        if failed:
            print("KNOWN-FINDING: property=%s %s" % (pid, e["what"]))
        elif failed is None:
            errors.append("known-finding witness %s could not be replayed: %s" % (e["key"], json.dumps(info)[:300]))
        else:
            print("note: known finding %s no longer reproduces (entry can be retired)" % e["key"])

    for r in inconclusive:
        print("INCONCLUSIVE harness=%s part=%s (%s %s)" % (r["harness"], json.dumps(r["part"]), r["verdict"], r["detail"][:200].replace("\n", " ")))

    nviol = 0
    for r, v in violations:
        h = hashlib.sha1(json.dumps([r["harness"], r["part"], v.get("args"), v.get("witness")], sort_keys=True, default=str).encode()).hexdigest()[:10]
        path = os.path.join(ROOT, "replays", "%s-%s-%s.json" % (pid, r["harness"], h))
        rec = {"property": pid, "module": r["module"], "harness": r["harness"], "part": r["part"], "tier": tier,
               "args": v.get("args", []), "kwargs": v.get("kwargs"), "detail": v}
        with open(path, "w") as f:
            json.dump(rec, f, indent=1, default=str)
        print("VIOLATION property=%s replay=%s" % (pid, path))
        print("   harness=%s part=%s %s" % (r["harness"], json.dumps(r["part"]), json.dumps(v, default=str)[:600]))
        nviol += 1
    for e in errors:
        print("HARNESS-ERROR", e)

    main_res = [r for r in results if not r["twin"]]
    if not a.no_evidence and not a.only:
        write_evidence(pid, tier, seed, mods, reg, main_res, results, samples, nviol, errors, inconclusive, time.time() - t0)
    if nviol:
        return 1
    if errors:
        return 2
    return 0


def write_evidence(pid, tier, seed, mods, reg, main_res, results, samples, nviol, errors, inconclusive, wall):
    mod0 = mods[0]
    level = getattr(mod0, "LEVEL", "model_checking")
    evaluations = sum(r["iterations"] for r in main_res)
    distinct = sum(r["confirmed_paths"] for r in main_res)
    exhaustive = all(r["verdict"] == "confirmed" for r in main_res) and not errors
    z3q = sum((r.get("z3") or {}).get("queries", 0) for r in main_res)
    z3t = sum((r.get("z3") or {}).get("solver_time_s", 0) for r in main_res)
    for r in main_res:
        for s in ((r.get("z3") or {}).get("samples") or [])[:1]:
            if len(samples) < 14:
                samples.append({"harness": r["harness"], "part": r["part"], "query": s})
    per = {}
    for r in main_res:
        d = per.setdefault(r["harness"], {"jobs": 0, "confirmed_jobs": 0, "paths_confirmed": 0, "iterations": 0,
                                          "cpu_wall_s": 0.0, "verdicts": {}})
        d["jobs"] += 1
        d["confirmed_jobs"] += r["verdict"] == "confirmed"
        d["paths_confirmed"] += r["confirmed_paths"]
        d["iterations"] += r["iterations"]
        d["cpu_wall_s"] = round(d["cpu_wall_s"] + r["wall_s"], 2)
        d["verdicts"][r["verdict"]] = d["verdicts"].get(r["verdict"], 0) + 1
    harn = []
    for m in reg:
        if m["fn"] not in per:
            continue
        h = dict(per[m["fn"]])
        h.update(name=m["fn"], engine="CrossHair 0.0.110 (z3)" if m["kind"] == "xh" else "z3 (direct)",
                 cls=m.get("cls"), tracing=m.get("tracing"), functions_encoded=m.get("code"),
                 bounds=tv(m, "bounds", tier), outside_bounds=m.get("outside"), stubs=m.get("stubs"))
        harn.append(h)
    assumptions = list(getattr(mod0, "ASSUMPTIONS", []))
    for mod in mods[1:]:
        assumptions += list(getattr(mod, "ASSUMPTIONS", []))
    for m in reg:
        for s in m.get("stubs") or []:
            assumptions.append("stub (%s): %s" % (m["fn"], s))
    ev = {
        "property_id": pid, "tier": tier, "seed": seed, "level": level,
        "coverage": {
            "evaluations": evaluations,
            "distinct_nontrivial": distinct,
            "rule": ("evaluations = CrossHair path iterations (each a z3-chosen assignment of the harness's symbolic "
                     "inputs, including ones rejected by the precondition) + direct z3 queries; distinct_nontrivial = "
                     "leaves of the exhausted path tree that satisfied the precondition, reached the harness's final "
                     "assertion and were confirmed (distinct by construction: each leaf is a different decision "
                     "sequence) + direct z3 queries answered unsat that are non-trivial by the job's own rule (see harnesses[].bounds / module docstring)"),
            "samples": samples or [{"note": "no reaching input recorded"}],
            "exhaustive": bool(exhaustive),
            "states": distinct, "transitions": evaluations, "traces_validated_against_impl": len([r for r in results if r["twin"] and r["verdict"] == "counterexample"]),
            "solver_queries": z3q, "solver_time_s": round(z3t + sum(r["wall_s"] for r in main_res if not r.get("z3")), 2),
            "solver_time_note": "direct z3 time is exact; for CrossHair jobs the wall time of the CrossHair process is given (z3 time is not exposed)",
            "inconclusive": ["%s part=%s: %s" % (r["harness"], json.dumps(r["part"]), r["detail"][:120]) for r in inconclusive],
            "harness_errors": errors,
            "harnesses": harn,
        },
        "assumptions": assumptions,
        "wall_s": round(wall, 2),
        "violations": nviol,
    }
    if ev["coverage"]["states"] < 1 or ev["coverage"]["transitions"] < 1:
        ev["coverage"].pop("states"); ev["coverage"].pop("transitions")
    os.makedirs(os.path.join(ROOT, "evidence"), exist_ok=True)
    with open(os.path.join(ROOT, "evidence", pid + ".json"), "w") as f:
        json.dump(ev, f, indent=1, default=str)


if __name__ == "__main__":
    sys.exit(main())
