"""Copies a confirmed seed into /verif/seeded/<name>/ and records what was run. usage: python -m lib.seedsave <seed dir> <name> <result json...>"""
import json, os, shutil, sys
seed, name = sys.argv[1], sys.argv[2]
dst = os.path.join(os.path.dirname(os.path.dirname(os.path.abspath(__file__))), "seeded", name)
os.makedirs(dst, exist_ok=True)
for f in ("patch.diff", "demo.py"):
    shutil.copy(os.path.join(seed, f), os.path.join(dst, f))
meta = json.load(open(os.path.join(seed, "meta.json")))
out = {"property": meta["property"], "summary": meta.get("summary"), "needs": meta.get("needs"), "why_tests_miss": meta.get("why_tests_miss"),
       "author": "independent sub-agent given only the property text and a scratch worktree", "agent_ran": meta.get("ran")}
runs = []
for rf in sys.argv[3:]:
    r = json.load(open(rf))
    if "confirm" in r:
        c = r["confirm"]
        out["confirmed_by_me"] = {"how": "python -m lib.seedrun <seed> --confirm: fresh scratch worktree of /repo HEAD under /tmp; demo.py exit status without / with the patch; full baseline suite with the patch compared with BASELINE.json stable_pass; worktree removed",
                                  "demo_rc_without_patch": c.get("demo_without_patch_rc"), "demo_rc_with_patch": c.get("demo_with_patch_rc"),
                                  "baseline_tests_not_passing_with_patch": c.get("baseline_tests_not_passing"), "confirmed": c.get("confirmed")}
    if "check" in r:
        k = r["check"]
        runs.append({"cmd": "python -m lib.seedrun <seed> --check  (= ./check %s --tier quick against a scratch copy of /repo/pydoctor with patch.diff applied, via VERIF_REPO)" % r["property"],
                     "detected": k.get("detected"), "harnesses_reporting": k.get("harnesses"), "violation_lines": k.get("violations"), "first_violation": (k.get("first") or "")[:400], "error": k.get("error")})
out["check_runs"] = runs
json.dump(out, open(os.path.join(dst, "meta.json"), "w"), indent=1)
print(name, "saved; detected:", [r["detected"] for r in runs])
