"""Writes /verif/MANIFEST.json from the table below (run after adding a check)."""
import json
import os

ROOT = os.path.dirname(os.path.dirname(os.path.abspath(__file__)))

CHECKS = {
    "C05": dict(
        level="model_checking", design="DESIGN.md §3 C05",
        technique="CrossHair (z3) symbolic execution of mro.mro on symbolic class ids against a reference C3; solver-enumerated bounded hierarchies through the model against CPython type()",
        text="Bounded model checking: for every ordered-base hierarchy of <=4 (quick) / <=5 (thorough) classes CrossHair exhausts the path tree of mro.mro/_merge run on symbolic class ids and of the model path (source -> System -> Class.mro/find/docsources/get_docstring, mro warnings) and every leaf agrees with a reference C3 / with CPython executing the same class statements; 4-class hierarchies are also spread over <=3 modules (7 placements x 3 import styles x 2 processing orders) and compared with CPython importing the same package. Nothing is claimed beyond 5 classes.",
        note="Trusted: CrossHair 0.0.110 + z3 exhaustion verdict; reference C3 validated against type() at import; CPython 3.12 as oracle. The model-path harness (class E) concretises the solver-chosen shape and runs pydoctor untraced: bounded-exhaustive, not symbolic.",
    ),
    "C13": dict(
        level="model_checking", design="DESIGN.md §3 C13", engine="rx+xh",
        technique="z3 regex-theory equivalence of the regex emitted by qnmatch.translate with the documented glob meaning, for names of every length; CrossHair-exhausted rule-list space for privacyClass precedence",
        text="K13a: for every pattern of length <=4 (quick) / <=6 (thorough) over a metacharacter-complete 10-character alphabet the regular expression the real translate() returns is compiled (via CPython's own regex parser) to a z3 regex and proved language-equal to the documented meaning - unsat means no name of any length distinguishes them; sat models are replayed on qnmatch.qnmatch. K13b: CrossHair exhausts every rule list of <=3 (4) rules x privacy x pattern kind x name shape against the precedence sentence of the manual. Bounded in pattern length and rule count only.",
        note="Trusted: z3 sequence theory, CPython re._parser as the meaning of regex text, lib/rx2z3.py (validated each run against re on sample names and on every witness), CrossHair exhaustion verdict. '-' ranges in brackets are outside the claim.",
    ),
    "C17": dict(
        level="model_checking", design="DESIGN.md §3 C17",
        technique="CrossHair (z3): symbolic strings through the inventory line parser/writer round trip and getLink; solver-exhausted token vectors, chunked payloads under a stubbed decompressor, and visibility tables for reader totality and writer/reader agreement (pydoctor reader and Sphinx loader)",
        text="Bounded model checking. Round trip and getLink are confirmed over all paths for symbolic name/url/location strings up to 3 (4) characters. Reader totality (_parseInventoryLine, _parseInventory, update, _getPayload) is decided for every line of <=4 (6) tokens from a 9-token table and every payload of <=3 (4) chunks from an 8-chunk table x decompressor behaviour; the writer is decided on an 11-object model under all 2048 hidden/visible tables and read back by both readers.",
        note="Trusted: CrossHair exhaustion verdict; token/chunk tables as the abstraction of malformed input (stated in evidence); Sphinx 9.1 loader as foreign reader; zlib stub contract.",
    ),
    "C19": dict(
        level="model_checking", design="DESIGN.md §3 C19",
        technique="CrossHair (z3) symbolic execution of Visitor.walk/walkabout with the main visitor's pruning decisions as lazily-read symbolic variables; event trace judged against the documented contract; solver-enumerated module shapes for the builder stack",
        text="Bounded model checking of the real visitor: for every rooted ordered tree of <=3 (4) nodes, every set of extension timings, and every assignment of a visit action (5 values) and depart action (2 values) to the nodes the walk actually reaches, CrossHair exhausts the paths of walk/walkabout and the recorded trace satisfies: no escape, each node entered once, extensions enter exactly the nodes the main visitor enters, enter/leave nest like the tree, entry order BEFORE,OUTTER,main,AFTER,INNER and exit order BEFORE,INNER,main,AFTER,OUTTER, main trace equals the documented pruning semantics. The builder stack discipline is checked on 4394 generated modules.",
        note="Trusted: CrossHair exhaustion verdict; my executable reading of the docstrings in visitor.py (reference walker in the harness); only the main visitor prunes.",
    ),
    "C16": dict(
        level="model_checking", design="DESIGN.md §3 C16",
        technique="CrossHair (z3) symbolic execution of the line-number and counting kernels: extract_docstring_linenum (symbolic text, unbounded ints), Documentable.report, System.msg (unbounded ints), reportErrors/Field.report, driver.main exit status",
        text="Bounded model checking of the arithmetic behind every warning: docstring start line for every text of <=4 (5) characters and every int line number incl. the shift-by-k law; report() line/file selection for all small line values, sections and object kinds; msg() counting/printing for all ints; reportErrors/Field.report offsets and once-per-object; main()'s exit status for every (violations, parse errors, -W). K16f (class E) plants one problem (bad cross-reference, unknown field, non-existent parameter, markup error) at a known physical line in 960 (1 920) generated modules - 4 docformats x 5 object kinds x 5 docstring layouts x offsets x raw - and every warning issued by the real parsers names that line (epytext/reST) or a line of that docstring (google/numpy) and moves by k with the definition. Docstring texts other than the generated one are not covered.",
        note="Trusted: CrossHair exhaustion verdict. Stubs: System.msg capture, Options.from_args/get_system/make in the exit-status harness under the invariant parse_errors non-empty => violations >= 1.",
    ),
    "C14": dict(
        level="model_checking", design="DESIGN.md §3 C14",
        technique="CrossHair (z3): default-alignment kernel extracted from _handleFunctionDef's source on unbounded symbolic ints; solver-enumerated parameter layouts through the real builder and format_signature, re-parsed by CPython and compared with inspect.signature",
        text="K14a proves (within CrossHair's path exhaustion, no int bound) that the nested get_default/default_offset arithmetic aligns defaults with the last parameters for all num_pos_args, n_defaults, index. K14b exhausts every layout of <=2+2 (3+3) positional, <=2 keyword-only parameters, *args/**kwargs, default masks, annotation placements incl. string annotations, 5 return forms, overload sets: the text of format_signature re-parses to the same ast.arguments (names, kinds, separators, defaults, unquoted annotations, no '-> None') and Signature kinds/defaults equal inspect.signature's.",
        note="Trusted: CrossHair exhaustion verdict; CPython parser and inspect as oracle. K14b is bounded-exhaustive (class E): pydoctor runs concretely on each solver-chosen layout.",
    ),
    "C15": dict(
        level="model_checking", design="DESIGN.md §3 C15",
        technique="CrossHair (z3): solver-enumerated expression shapes rendered by the real colorizer and re-parsed by CPython; symbolic strings through _str_escape against a reference un-escaper; symbolic ints through the _output wrap arithmetic; truncation/completeness over (value kind, size, linelen, maxlines)",
        text="Bounded model checking / bounded-exhaustive exploration: every depth-2 combination of 47 expression forms x operand position and depth-3 operator chains (6 of 25 grandparent operators quick, all thorough) re-parse to the source AST (modulo documented spelling changes); every str/bytes of <=3 (4) characters over a quoting-relevant alphabet reads back via literal_eval; _str_escape is confirmed on symbolic strings of <=2 (3) arbitrary non-surrogate characters; _output conserves text and respects linelen for all small (linelen, column, length); cut output is marked and is a prefix of the full rendering for 5040 (12 600) limit settings.",
        note="Trusted: CrossHair exhaustion verdict; CPython's parser/literal_eval as reader. Two recorded findings (one-element tuple, tuple slice bound) are excused by key and replayed each run.",
    ),
    "C20": dict(
        level="model_checking", design="DESIGN.md §3 C20 (narrow)", engine="rx+xh",
        technique="z3 regex-theory inclusion between the quoting-detection regexes of the live _configparser and the grammar of Python string literals (strings of every length); CrossHair-exhausted quoting round trips, section names and unknown-key subsets",
        text="Narrow claim: quoting rules, unknown-key filter, and file-vs-command-line equivalence for every option of the real parser over value tables with the file content passed in memory (K20d). K20a decides, for strings of every length, that every valid simple-quoted literal is detected, every valid triple-quoted literal is detected except two recorded classes (subtracted as languages after their witnesses replay), and nothing that is not lexically a simple-quoted literal is taken for quoted. K20b/c exhaust quoting round trips for texts of <=3 (4) characters over a 10-character alphabet in four styles, raw texts, TOML section names and all 256 known/unknown key subsets through ValidatorParser. Reading config files from disk / cwd lookup and the conversion of the namespace into Options are not claimed.",
        note="Trusted: z3 sequence theory, CPython re._parser, lib/rx2z3.py (validated against re on 26 vectors each run), my z3 rendering of the literal grammar, CrossHair exhaustion verdict.",
    ),
    "C12": dict(
        level="model_checking", design="DESIGN.md §3 C12",
        technique="CrossHair (z3) exhaustion of privacy tables (environment stub of System.privacyClass) over the real visibility/listing code, and of the same tables through the real TemplateWriter with the written output examined for traces of hidden objects and private markers",
        text="Bounded model checking over the environment: for every HIDDEN/PRIVATE/PUBLIC assignment to 6 (8) objects of a fixed 11-object project, (a) isVisible equals 'no hidden ancestor-or-self', the listing helpers (submodules, class_members, inherited_members, overriding_subclasses, findRootClasses), css_class and taglink respect it; (b) the project is rendered by the real writer (classic theme; thorough: 3 themes) and the output has no page, anchor, inventory line, search document or hyperlink for any hidden object, every listing entry (sidebar, member table, member details, module index, search documents) of a PRIVATE object carries the private marker, and every visible object has its page/anchor.",
        note="Trusted: CrossHair exhaustion verdict; html.parser; the fixed project (lib/minimodel.py). CrossHair runs with file-system side effects unblocked for the rendering harness (writes only under its own mkdtemp). Privacy produced by real rules is C13's subject.",
    ),
    "C08": dict(
        level="model_checking", design="DESIGN.md §3 C08",
        technique="CrossHair (z3) exhaustion of a fault schedule: stub docstring parser / ParsedDocstring whose failures (which exception, at which call) are the variables, under the real wrapper layer of epydoc2stan",
        text="Bounded model checking against an arbitrary environment: for every parser behaviour (success, ParseError, recoverable errors, 11 exception classes) x to_stan behaviour (11 exception classes x failing always / first call / second call / summary first) x to_node (ok / NotImplementedError) x docformat x process-types x docstring x object kind (own docstring / docstring inherited from a base class; thorough: 5 kinds): format_docstring/format_summary/format_toc return, the complete original text is shown after a fatal failure, the failure is reported against the object, parse_errors records it, no message is repeated, and a second object is unaffected. The 'for all strings' half of the statement is decided only for a generator of troublesome docstrings (h_real_parsers, class E): 1..2 (3) fragments from a menu of 26 malformed / borderline / foreign-format fragments x 5 docformats x type processing, through the real parsers: the three format_* functions return, every marker word is shown or a problem is reported, a parser that gave up shows the complete original text, reports point inside the object, the neighbour object is unaffected.",
        note="Trusted: CrossHair exhaustion verdict; the fault model is the documented contract of parser functions / ParsedDocstring (to_node raises NotImplementedError only). Stub installed by replacing epydoc2stan.get_parser_by_name.",
    ),
    "C18": dict(
        level="model_checking", design="DESIGN.md §3 C18 (narrow)",
        technique="CrossHair (z3) exhaustion of iteration-order nondeterminism: System.root_names, Path.iterdir() and every set built by pydoctor's own code (source re-loaded through an AST-rewriting import hook) iterate in a solver-chosen permutation; results and rendered output trees must be permutation-independent",
        text="Narrow claim. Bounded model checking against an arbitrary environment order: for 1..3 roots and every iteration order of the root-name collection, driver.get_system's project name, every object's url (index.html rule), the summary page list and the single-root rule are the same; for every listing order (120) of a package directory, System.addPackage discovers modules in the same order; K18c: with every set construction in pydoctor's source (set(), frozenset(), set displays/comprehensions, defaultdict(set)) rewritten at import to a set iterating in the chosen permutation, a 3/2/1-root project of mixed kinds rendered by the real writer (2 themes) gives byte-identical output trees for 6 (24) permutation indices. The hash seed's effect through sets inside third-party libraries, and a reused output directory, are NOT decided.",
        note="Trusted: CrossHair exhaustion verdict; the permutation stubs as the model of set / directory-listing order (one permutation index per run for all sets); lib/setorder.py's rewrite covering every set construction form. File-system side effects are unblocked for the directory and rendering harnesses (mkdtemp only).",
    ),
    "C04": dict(
        level="model_checking", design="DESIGN.md §3 C04",
        technique="CrossHair (z3): symbolic import level through the real visit_ImportFrom against importlib's own resolver; solver-enumerated import statements and project shapes, every runtime-bound name compared with CPython importing the same sources in memory",
        text="K04a: for every nesting depth 0..3, module/package/class scope and module part, CrossHair exhausts the paths of visit_ImportFrom for a symbolic level 1..5 (7) and the bound name equals importlib._bootstrap._resolve_name's result, or nothing is bound and a report issued when Python refuses. K04b/c: plain imports and 380 project shapes (11 import forms x scope x depth x 5 uses x optional third module): for every name CPython binds in every module and class namespace, resolveName gives that object or None, and never None for names imported directly from the defining module or through a module alias.",
        note="Trusted: CrossHair exhaustion verdict; importlib._bootstrap._resolve_name and CPython's import system (in-memory finder) as oracles. K04c is bounded-exhaustive (class E).",
    ),
    "C02": dict(
        level="exploration", design="DESIGN.md §3 C02",
        technique="CrossHair (z3) enumerates every shape of a project-template space and certifies exhaustion; the real System.process() runs on each shape and the statement's invariants are evaluated on the resulting model",
        text="Bounded-exhaustive exploration (class E): all 6 240 (thorough 24 960) project shapes - definition kind, duplicate definitions, nested class, re-export form, origin __all__, local definition of the exported name, consumer form, import cycle, zope interfaces, field-documented attribute - are built by the real builder and the final model satisfies I1..I8 (registry key = qualified name, entry of its parent or superseded, reachable from a root, kind fits place, linearisation starts with the class and holds each resolved base once, subclasses inverse of bases, implementedby inverse of implements, page file names distinct). Not stronger than enumeration of the template space.",
        note="Trusted: CrossHair's exhaustion verdict over the choice variables; lib/templates.py as the project generator; invariants as my reading of the statement.",
    ),
    "C06": dict(
        level="exploration", design="DESIGN.md §3 C06",
        technique="CrossHair (z3) enumerates project shapes x processing schedules (symbolic permutation index of System.unprocessed_modules) and certifies exhaustion; the real System.process() runs under each schedule and canonical dumps are compared",
        text="Bounded-exhaustive exploration with the schedule as a variable: for every template shape with a consumer module and every reachable processing order (package module first, sub-modules in any order; <= 6 orders), the canonical dump (type, kind, docstring, bases, resolved bases, linearisation per object) equals the dump under the default order; cyclic shapes are compared on the class hierarchy only; a further dimension lets the defining module star-import a same-named object it then overrides. Three recorded findings are excused by key (the excuse is limited to 'unresolved in one order, resolved in the other') and replayed each run.",
        note="Trusted: CrossHair's exhaustion verdict over the choice variables; lib/templates.py; the schedule is imposed by permuting the unprocessed list.",
    ),
    "C07": dict(
        level="exploration", design="DESIGN.md §3 C07",
        technique="CrossHair (z3) enumerates re-export shapes x consumer forms x schedules and certifies exhaustion; the real builder runs on each and the re-export contract is evaluated on the resulting model",
        text="Bounded-exhaustive exploration: for every re-export form (package plain/renamed/star, sibling plain, the same name imported twice, plain then star) x origin __all__ x local definition x kind x nested x consumer form x every schedule: when the documented condition holds the object and all members are registered only under exporter.newname, the origin resolves the old name, find_object(old) is find_object(new) is the object, the object is a member of the exporting module, the consumer's name / base class lead to it, the url is the exporter's; otherwise the object stays where defined. One recorded finding (consumer naming the defining module) is excused by key and replayed each run.",
        note="Trusted: CrossHair's exhaustion verdict over the choice variables; lib/templates.py.",
    ),
    "C03": dict(
        level="exploration", design="DESIGN.md §3 C03",
        technique="CrossHair (z3) enumerates statement-shape vectors (and literal shapes) and certifies exhaustion; each generated program is documented by the real builder and executed by CPython, namespaces/kinds/docstrings compared",
        text="Bounded-exhaustive exploration: 7 800 two-statement programs (15 statement kinds squared x 6 wrappers x 4 docstring layouts x module/class scope) - the documented names, kinds (function, method, class method, static method, property, class, exception), cleaned docstrings, async flag and the nested-class namespaces equal what exec of the same text yields, nothing invented, nothing twice; 1 859 literal shapes - the inferred type is the value's actual type and an element type is never wrong.",
        note="Trusted: CrossHair's exhaustion verdict over the choice variables; CPython exec/inspect as oracle; the generator tables in harness/c03_defs.py.",
    ),
    "C11": dict(
        level="exploration", design="DESIGN.md §3 C11",
        technique="CrossHair (z3) enumerates project shapes x privacy rule lists x themes and certifies exhaustion; each is rendered by the real TemplateWriter and the written pages are parsed and crawled",
        text="Bounded-exhaustive exploration: 3 600 renders (thorough 32 400): template project shapes (re-exports incl. of a function whose default names a sibling, duplicate definitions, nested classes, consumers with cross-references, subclasses showing inherited docstrings with same-page links) x 9 privacy rule lists x theme; in every output directory each relative href/src resolves to a written file and its fragment to an id/name in it, url fields of the search documents likewise, and every visible object has its page/anchor. The rendering itself carries no symbolic values: this is exploration of bounded inputs, labelled as such.",
        note="Trusted: CrossHair's exhaustion verdict over the choice variables; html.parser; lib/templates.py and lib/crawl.py. File-system side effects unblocked (mkdtemp only).",
    ),
    "C01": dict(
        level="exploration", design="DESIGN.md §8.6 (narrow claim; §4 explains why the full property is out of reach)",
        technique="CrossHair (z3) enumerates packages assembled from a menu of awkward module files and certifies exhaustion; the real analysis, rendering and exit-status code run on each",
        text="Narrow claim, bounded-exhaustive exploration: for every project made of a root module plus a package of 2 (thorough 3) modules drawn from a menu of 46 module files - 5 that do not parse (syntax error, NUL byte, inconsistent indentation, undecodable bytes, unknown coding), un-evaluable __all__/__docformat__ values, every statement form the builder special-cases (decorators, metaclass keywords, match, walrus/star targets, type aliases, async forms, except*, overloads, duplicates, bad fields, surrogates and control characters in constants and docstrings, empty file), modules importing / re-exporting their siblings and the second root, extension decorators with arguments they do not expect, __doc__ assignments, numbers too long to print, odd string annotations; and for a single or second root named like a file the writer creates itself (h_root_named) - System.addPackage + process(), the TemplateWriter, the inventory writer and driver.main's exit status computation complete without an uncaught exception, every file is listed as a module, every unparsable file is reported by a message naming it, a healthy sibling is fully documented, and the exit status is 0, 2 or 3. Nothing is claimed for inputs outside the menu; hangs are not decided.",
        note="Trusted: CrossHair's exhaustion verdict over the choice variables; the menu in harness/c01_total.py. File-system side effects unblocked (mkdtemp only).",
    ),
    "C10": dict(
        level="exploration", design="DESIGN.md §8.7 (narrow claim; §4 explains why the full property is out of reach)",
        technique="CrossHair (z3) enumerates (hostile string, place, docformat) and certifies exhaustion; each project is rendered by the real writer and every page is parsed by expat and compared structurally with a harmless twin",
        text="Narrow claim, bounded-exhaustive exploration: 14 hostile strings (script element, attribute/event-handler injection, entity look-alikes, CDATA/comment delimiters, closing tags, control characters) x 12 places where source text reaches a page (module/function/class/attribute docstrings, param/return/raises fields, constant value, parameter default, string annotation, decorator argument, base-class subscript) x 5 docformats: every written page parses as XML (XML-illegal characters set aside), its element/attribute skeleton equals the one obtained with the same string whose < > & quotes are replaced (so the text introduced no element, attribute, script or handler), and the string is present as text. The escaping code itself (twisted, docutils, expat) is third party and is exercised, not modelled.",
        note="Trusted: CrossHair's exhaustion verdict over the choice variables; expat as the judge of well-formedness; the menu in harness/c10_markup.py. File-system side effects unblocked (mkdtemp only).",
    ),
    "C09": dict(
        level="exploration", design="DESIGN.md §8.9 (narrow claim; §4 explains why the full property is out of reach)",
        technique="CrossHair (z3) enumerates documents of a structure-aware generator (blocks x fields x docformat) and certifies exhaustion; the real parsers and renderer run on each and the visible text is compared with the source words",
        text="Narrow claim, bounded-exhaustive exploration: every document of <=2 (3) blocks from a menu of 7 (paragraph, inline markup, bullet list with nested item, ordered list, literal block with markup-looking characters, doctest block, section heading) plus every subset of 4 fields (param, return, raises, note), serialised to epytext, reStructuredText, google, numpy and plaintext: no warning for the well-formed text; every word appears in the visible text in source order; literal and doctest blocks are reproduced line by line with their relative indentation; consumed inline delimiters do not leak; each field's text is shown; plaintext is reproduced exactly. Nothing is claimed for docstrings outside the generator.",
        note="Trusted: CrossHair's exhaustion verdict over the choice variables; the serialiser in harness/c09_text.py (a serialisation mistake shows up as a parser warning and was corrected while building: epytext wants lists indented).",
    ),
}

NOT_APPLICABLE = {
}

PENDING = "check not built yet in this tree (planned in DESIGN.md; solver-based harness pending)"
ALL = ["C%02d" % i for i in range(1, 21)]


def main():
    checks = []
    for pid in sorted(CHECKS):
        c = CHECKS[pid]
        checks.append({
            "property_id": pid,
            "quick_cmd": "./check %s --tier quick" % pid,
            "thorough_cmd": "./check %s --tier thorough" % pid,
            "evidence_file": "evidence/%s.json" % pid,
            "replay_cmd_template": "./check %s --replay {path}" % pid,
            "engine": c.get("engine", "xh"),
            "level_claimed": {"category": c["level"], "text": c["text"], "design_ref": c["design"]},
            "level_note": c["note"],
            "technique": c["technique"],
        })
    na = []
    for pid in ALL:
        if pid in CHECKS:
            continue
        na.append({"property_id": pid, "reason": NOT_APPLICABLE.get(pid, PENDING)})
    man = {
        "version": 1,
        "setup_cmd": "./setup.sh",
        "hooks": {
            "guard": "PYDOCTOR_VERIF",
            "enable": "no hooks: harnesses import /repo's working tree directly and inject stubs by assignment",
            "baseline_off_cmd": "cd /repo && /venv/bin/python -m pytest -ra -q -p no:cacheprovider --timeout=900 --continue-on-collection-errors",
            "source_commits": [],
            "add_only": True,
        },
        "engines": [
            {"name": "xh", "path": "lib/runner.py + lib/xh_driver.py + harness/*.py",
             "serves_properties": sorted(CHECKS), "kind_free_text": "CrossHair 0.0.110 symbolic execution (z3) of PEP-316 harnesses over pydoctor's real modules, partitioned over 16 processes; vacuity twin; native replay"},
            {"name": "rx", "path": "lib/rx2z3.py", "serves_properties": [p for p in ("C13", "C20", "C17") if p in CHECKS],
             "kind_free_text": "regular expressions taken from the live module at run time, parsed by CPython's re._parser and compiled to z3 regex terms; equivalence/inclusion decided by z3's sequence theory for strings of every length"},
        ],
        "checks": checks,
        "not_applicable": na,
        "notes": "Exit codes of ./check: 0 held on everything explored (INCONCLUSIVE lines name harnesses whose path tree was not exhausted); 1 replayed violation (VIOLATION line); 2 harness/engine error. known_findings.json lists recorded defects; fixed entries suppress nothing.",
    }
    with open(os.path.join(ROOT, "MANIFEST.json"), "w") as f:
        json.dump(man, f, indent=1)
    try:
        import jsonschema
        jsonschema.validate(man, json.load(open("/root/.vp/MANIFEST.schema.json")))
        print("MANIFEST valid;", len(checks), "checks")
    except ImportError:
        print("written (jsonschema not available here)")


if __name__ == "__main__":
    main()
