"""Shared helpers for project-shaped harnesses: build a System from {module name: (source, is_package)} and import the same
sources with CPython through an in-memory meta-path finder (sources never touch disk)."""
import importlib
import importlib.abc
import importlib.util
import sys
import types

from pydoctor import model
from pydoctor.options import Options

OPTS = Options.defaults()
OPTS.verbosity = -3


class MemFinder(importlib.abc.MetaPathFinder, importlib.abc.Loader):
    def __init__(self, sources):
        self.sources = sources

    def find_spec(self, name, path, target=None):
        if name in self.sources:
            return importlib.util.spec_from_loader(name, self, is_package=self.sources[name][1])
        return None

    def create_module(self, spec):
        return None

    def exec_module(self, module):
        src, _is_pkg = self.sources[module.__name__]
        exec(compile(src, "<mem:%s>" % module.__name__, "exec"), module.__dict__)


def run_cpython(sources, order=None):
    """imports every module (in `order` or sorted order); -> {name: module}.  Raises what the import raises."""
    f = MemFinder(sources)
    sys.meta_path.insert(0, f)
    try:
        mods = {}
        for name in (order or sorted(sources)):
            mods[name] = importlib.import_module(name)
        return mods
    finally:
        sys.meta_path.remove(f)
        for name in list(sys.modules):
            if name in sources:
                del sys.modules[name]


def build(sources, opts=None, schedule=None, capture=True):
    """-> System built from the sources.  schedule: optional function(list of unprocessed modules) -> reordered list,
    applied to system.unprocessed_modules before process()."""
    s = model.System(opts or OPTS)
    if capture:
        s.msgs = []
        s.msg = lambda section, m, thresh=0, **kw: s.msgs.append((section, m, thresh))
    b = s.systemBuilder(s)
    for name in sorted(sources, key=lambda n: (n.count("."), n)):
        src, is_pkg = sources[name]
        parent, _, base = name.rpartition(".")
        b.addModuleString(src, base, parent_name=parent or None, is_package=is_pkg)
    if schedule is not None:
        s.unprocessed_modules[:] = schedule(list(s.unprocessed_modules))
    b.buildModules()
    return s


def qual(o):
    if isinstance(o, types.ModuleType):
        return o.__name__
    if isinstance(o, (type, types.FunctionType)):
        return o.__module__ + "." + o.__qualname__
    return None
