"""A small fixed project built through the real builder, with the privacy of every object delivered
by a table - turned into one exact-name --privacy rule per object (the real rule machinery, exact rules only;
pattern semantics and rule precedence are C13's subject) - so that harnesses can make privacy a variable.

pkg/__init__.py   (package)
pkg/a.py          class C: m(), v ; class D(C): m() ; class _P: pass
pkg/b.py          def f(): ... ; from pkg.a import C ; X: C = None
"""
from pydoctor import model
from pydoctor.options import Options

OPTS = Options.defaults()
OPTS.verbosity = -3

SRC = {
    "pkg": '"""Package."""\n',
    "pkg.a": '"""Module a."""\nclass C:\n    """Class C, see L{m} and L{v}."""\n    v = 1\n    """Variable v."""\n    def m(self):\n        """Method m, see L{v}."""\n\nclass D(C, Exception):\n    """Class D, an exception class (its kind is EXCEPTION, not CLASS) with a member."""\n    def m(self):\n        pass\n\nclass _P:\n    """Private by name."""\n',
    "pkg.b": '"""Module b, see L{f} and L{X}."""\nfrom pkg.a import C\ndef f(x: C) -> C:\n    """Function f, see L{C} and L{pkg.a.D.m}."""\n\nX: C = None\n"""Variable X."""\n',
}
OBJECTS = ["pkg", "pkg.a", "pkg.a.C", "pkg.a.C.m", "pkg.a.C.v", "pkg.a.D", "pkg.a.D.m", "pkg.a._P", "pkg.b", "pkg.b.f", "pkg.b.X"]
# extended model (C12): module b also has a subclass of a.C - a subclass ACROSS modules, hidden only through its module when b is
# hidden - with a nested class that is itself a subclass of a.C
SRC_B_X = SRC["pkg.b"] + 'class E(C):\n    """Class E, subclass across modules."""\n    class N(C):\n        """Nested class N."""\n'
OBJECTS_X = OBJECTS + ["pkg.b.E", "pkg.b.E.N", "pkg.__main__", "pkg.__main__.run"]
SRC_MAIN = '"""Main module: always private (Module.privacyClass)."""\ndef run():\n    """Run, see L{pkg.a.C}."""\n'
PARENT = {n: (n.rsplit(".", 1)[0] if "." in n else None) for n in OBJECTS_X}
PRIV = [model.PrivacyClass.HIDDEN, model.PrivacyClass.PRIVATE, model.PrivacyClass.PUBLIC]


def build(table=None, opts=None, extended=False):
    """-> System; table: {fullName: PrivacyClass} (names not in the table keep their default privacy)."""
    import copy
    opts = copy.copy(opts or OPTS)
    opts.privacy = [(priv, name) for name, priv in (table or {}).items()]
    s = model.System(opts)
    s.msgs = []
    s.msg = lambda section, m, thresh=0, **kw: s.msgs.append((section, m, thresh))
    b = s.systemBuilder(s)
    b.addModuleString(SRC["pkg"], "pkg", is_package=True)
    b.addModuleString(SRC["pkg.a"], "a", parent_name="pkg")
    b.addModuleString(SRC_B_X if extended else SRC["pkg.b"], "b", parent_name="pkg")
    if extended:
        b.addModuleString(SRC_MAIN, "__main__", parent_name="pkg")
    b.buildModules()
    return s


def default_privacy(name):
    last = name.rsplit(".", 1)[-1]
    return model.PrivacyClass.PRIVATE if last.startswith("_") and not (last.startswith("__") and last.endswith("__")) else model.PrivacyClass.PUBLIC


def privacy_of(table, name):
    if name == "pkg.__main__":
        return model.PrivacyClass.PRIVATE          # a module named __main__ is private whatever the rules say
    return table.get(name, default_privacy(name))


def hidden_star(table, name):
    """specification: some ancestor-or-self is HIDDEN."""
    while name is not None:
        if privacy_of(table, name) is model.PrivacyClass.HIDDEN:
            return True
        name = PARENT[name]
    return False
