"""A small fixed project built through the real builder, with the privacy of every object delivered
by a table (stub of System.privacyClass) so that harnesses can make privacy a symbolic variable.

pkg/__init__.py   (package)
pkg/a.py          class C: m(), v ; class D(C): m() ; class _P: pass
pkg/b.py          def f(): ... ; from pkg.a import C ; X: C = None
"""
from pydoctor import model
from pydoctor.options import Options

OPTS = Options.defaults()
OPTS.verbosity = -3

SRC = {
    "pkg": '"""Package."""\n',
    "pkg.a": '"""Module a."""\nclass C:\n    """Class C."""\n    v = 1\n    """Variable v."""\n    def m(self):\n        """Method m."""\n\nclass D(C):\n    """Class D."""\n    def m(self):\n        pass\n\nclass _P:\n    """Private by name."""\n',
    "pkg.b": '"""Module b."""\nfrom pkg.a import C\ndef f(x: C) -> C:\n    """Function f, see L{C} and L{pkg.a.D.m}."""\n\nX: C = None\n"""Variable X."""\n',
}
OBJECTS = ["pkg", "pkg.a", "pkg.a.C", "pkg.a.C.m", "pkg.a.C.v", "pkg.a.D", "pkg.a.D.m", "pkg.a._P", "pkg.b", "pkg.b.f", "pkg.b.X"]
PARENT = {n: (n.rsplit(".", 1)[0] if "." in n else None) for n in OBJECTS}
PRIV = [model.PrivacyClass.HIDDEN, model.PrivacyClass.PRIVATE, model.PrivacyClass.PUBLIC]


def build(table=None, opts=None):
    """-> System; table: {fullName: PrivacyClass} (missing names -> PUBLIC)."""
    s = model.System(opts or OPTS)
    s.msgs = []
    s.msg = lambda section, m, thresh=0, **kw: s.msgs.append((section, m, thresh))
    b = s.systemBuilder(s)
    b.addModuleString(SRC["pkg"], "pkg", is_package=True)
    b.addModuleString(SRC["pkg.a"], "a", parent_name="pkg")
    b.addModuleString(SRC["pkg.b"], "b", parent_name="pkg")
    b.buildModules()
    if table is not None:
        set_privacy(s, table)
    return s


def set_privacy(s, table):
    s._privacyClassCache.clear()
    s.privacyClass = lambda ob: table.get(ob.fullName(), model.PrivacyClass.PUBLIC)


def hidden_star(table, name):
    """specification: some ancestor-or-self is HIDDEN."""
    while name is not None:
        if table.get(name, model.PrivacyClass.PUBLIC) is model.PrivacyClass.HIDDEN:
            return True
        name = PARENT[name]
    return False
