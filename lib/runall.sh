#!/bin/sh
# Runs every registered check of a tier sequentially and prints one summary line each. usage: lib/runall.sh [quick|thorough] [IDs...]
cd "$(dirname "$0")/.."
TIER=${1:-quick}; shift 2>/dev/null
IDS=${*:-$(python3 -c "import json;print(' '.join(c['property_id'] for c in json.load(open('MANIFEST.json'))['checks']))")}
mkdir -p /tmp/verif_runall
for id in $IDS; do
  s=$(date +%s)
  ./check $id --tier $TIER > /tmp/verif_runall/$id.$TIER.log 2>&1; rc=$?
  e=$(date +%s)
  echo "$id tier=$TIER rc=$rc wall=$((e-s))s inconclusive=$(grep -c '^INCONCLUSIVE' /tmp/verif_runall/$id.$TIER.log) violations=$(grep -c '^VIOLATION' /tmp/verif_runall/$id.$TIER.log) known=$(grep -c '^KNOWN-FINDING' /tmp/verif_runall/$id.$TIER.log) errors=$(grep -c '^HARNESS-ERROR' /tmp/verif_runall/$id.$TIER.log)"
done
