"""Runs `crosshair check` in-process and reports path statistics.

CrossHair's own `-v` output carries the numbers we want (confirmed leaves, iterations,
exhausted or not) but formatting it slows the search ~6x (measured).  This driver wraps
`crosshair.core.analyze_calltree` / `attempt_call` to read the same numbers from the return
value, then calls CrossHair's normal command line entry point, so verdict lines on stdout are
CrossHair's own.  One extra line `XHSTAT {json}` is appended per analysed condition.

usage: python -m lib.xh_driver <crosshair check arguments...>
"""
import json
import sys
import time


def main(argv):
    import crosshair.core as core
    from crosshair.main import main as xh_main

    orig_calltree = core.analyze_calltree
    orig_attempt = core.attempt_call
    counter = {"iterations": 0}

    def attempt_call(*a, **kw):
        counter["iterations"] += 1
        return orig_attempt(*a, **kw)

    def analyze_calltree(options, conditions):
        counter["iterations"] = 0
        try:
            from lib import hx
            hx.DONE_COUNT[0] = 0
        except Exception:
            hx = None
        t0 = time.time()
        res = orig_calltree(options, conditions)
        stat = {
            "fn": getattr(conditions.fn, "__name__", "?"),
            "status": res.verification_status.name,
            "confirmed_paths": res.num_confirmed_paths,
            "iterations": counter["iterations"],
            "done_reached": hx.DONE_COUNT[0] if hx else None,
            "wall_s": round(time.time() - t0, 3),
        }
        sys.stdout.write("XHSTAT " + json.dumps(stat) + "\n")
        sys.stdout.flush()
        return res

    core.attempt_call = attempt_call
    core.analyze_calltree = analyze_calltree
    try:
        xh_main(["check"] + list(argv))
    except SystemExit as e:
        return e.code or 0
    return 0


if __name__ == "__main__":
    sys.exit(main(sys.argv[1:]))
