"""Confirm a seeded change and run the property's check against it.

usage: python -m lib.seedrun <seed dir> [--tier quick] [--confirm] [--check]
  <seed dir> holds patch.diff, demo.py, meta.json (property id inside).
  --confirm : in a fresh scratch worktree of /repo HEAD (outside /repo and /verif): demo passes without the patch, patch applies,
              demo fails with it, the baseline suite still passes (stable_pass of BASELINE.json); worktree removed afterwards.
  --check   : copy /repo/pydoctor to a scratch dir, apply the patch there, run ./check <ID> with VERIF_REPO pointing at it
              (equivalent to `git -C /repo apply` + check + `git -C /repo checkout -- .`, but leaves /repo untouched so several
              seeds can be run at once); prints DETECTED / MISSED.
"""
import argparse
import json
import os
import shutil
import subprocess
import sys
import tempfile
import xml.etree.ElementTree as ET

ROOT = os.path.dirname(os.path.dirname(os.path.abspath(__file__)))
PYV = "/venv/bin/python"


def sh(cmd, cwd=None, env=None, timeout=3600):
    p = subprocess.run(cmd, cwd=cwd, env=env, capture_output=True, text=True, timeout=timeout, shell=isinstance(cmd, str))
    return p.returncode, p.stdout + p.stderr


def confirm(seed):
    wt = tempfile.mkdtemp(prefix="verif_seedwt_")
    os.rmdir(wt)
    rc, out = sh(["git", "-C", "/repo", "worktree", "add", "--detach", wt, "HEAD"])
    assert rc == 0, out
    res = {}
    try:
        demo = os.path.join(seed, "demo.py")
        rc0, out0 = sh([PYV, demo], cwd=wt)
        res["demo_without_patch_rc"] = rc0
        rc, out = sh(["git", "-C", wt, "apply", os.path.join(seed, "patch.diff")])
        res["patch_applies"] = rc == 0
        if rc != 0:
            res["apply_error"] = out[-500:]
            return res
        rc1, out1 = sh([PYV, demo], cwd=wt)
        res["demo_with_patch_rc"] = rc1
        res["demo_with_patch_tail"] = out1[-600:]
        # which pydoctor did the demo import?  (must be the worktree's)
        rcw, outw = sh([PYV, "-c", "import pydoctor,sys; print(pydoctor.__file__)"], cwd=wt)
        res["pydoctor_in_worktree"] = outw.strip().startswith(wt)
        junit = os.path.join(wt, "junit.xml")
        sh([PYV, "-m", "pytest", "-q", "-p", "no:cacheprovider", "--timeout=900", "--continue-on-collection-errors", "--junitxml=" + junit], cwd=wt)
        base = set(json.load(open("/root/.vp/BASELINE.json"))["stable_pass"])
        passed = set()
        for tc in ET.parse(junit).getroot().iter("testcase"):
            if not any(ch.tag in ("failure", "error", "skipped") for ch in tc):
                passed.add(tc.get("classname") + "::" + tc.get("name"))
        res["baseline_tests_not_passing"] = sorted(base - passed)
        res["confirmed"] = bool(rc0 == 0 and rc1 != 0 and not res["baseline_tests_not_passing"] and res["pydoctor_in_worktree"])
        return res
    finally:
        sh(["git", "-C", "/repo", "worktree", "remove", "--force", wt])
        shutil.rmtree(wt, ignore_errors=True)


def check(seed, pid, tier, only):
    d = tempfile.mkdtemp(prefix="verif_seedchk_")
    try:
        shutil.copytree("/repo/pydoctor", os.path.join(d, "pydoctor"), ignore=shutil.ignore_patterns("__pycache__"))
        rc, out = sh(["patch", "-p1", "-d", d, "-i", os.path.join(seed, "patch.diff")])
        if rc != 0:
            return {"error": "patch does not apply to the current tree: " + out[-400:]}
        env = dict(os.environ, VERIF_REPO=d)
        cmd = [os.path.join(ROOT, "check"), pid, "--tier", tier, "--no-evidence"]
        for o in only or []:
            cmd += ["--only", o]
        rc, out = sh(cmd, env=env)
        viol = [l for l in out.splitlines() if l.startswith("VIOLATION")]
        detail = [l for l in out.splitlines() if l.startswith("   harness=")]
        return {"rc": rc, "detected": rc == 1 and bool(viol), "violations": len(viol),
                "first": (detail[0][:700] if detail else ""), "errors": [l[:300] for l in out.splitlines() if l.startswith("HARNESS-ERROR")][:3],
                "harnesses": sorted({l.split("harness=")[1].split(" ")[0] for l in detail})}
    finally:
        shutil.rmtree(d, ignore_errors=True)


def main():
    ap = argparse.ArgumentParser()
    ap.add_argument("seed")
    ap.add_argument("--tier", default="quick")
    ap.add_argument("--confirm", action="store_true")
    ap.add_argument("--check", action="store_true")
    ap.add_argument("--only", action="append")
    ap.add_argument("--pid")
    a = ap.parse_args()
    seed = os.path.abspath(a.seed)
    meta = json.load(open(os.path.join(seed, "meta.json")))
    pid = a.pid or meta["property"]
    out = {"seed": seed, "property": pid}
    if a.confirm:
        out["confirm"] = confirm(seed)
    if a.check:
        out["check"] = check(seed, pid, a.tier, a.only)
    print(json.dumps(out, indent=1))


if __name__ == "__main__":
    main()
