"""Make the iteration order of every set BUILT BY pydoctor's own code a variable (C18, K18c).

CPython gives no handle on the iteration order of a set of strings / enum members / objects hashed by identity: it
depends on PYTHONHASHSEED and on addresses.  To quantify over it, pydoctor's modules are loaded from /repo's current
source through an import hook that rewrites, in the AST, every construction of a set

    set(...)   frozenset(...)   {a, b}   {x for ...}   defaultdict(set)

into the construction of a subclass whose __iter__ / pop yield the members in the permutation selected by ORDER[0]
(all members in a canonical order, then permuted).  Everything else - membership, len, add, the set algebra (results are
wrapped again) - is the real set.  Sets whose members are all ints keep CPython's own order (it is deterministic).
Sets built inside third-party libraries or by C code (ast.literal_eval) are not touched.

install() must run before pydoctor is imported; it purges already-imported pydoctor modules to be safe.
"""
import ast
import builtins
import importlib.abc
import importlib.machinery
import itertools
import math
import sys

ORDER = [0]
STATS = {"sets_iterated": 0, "sites": 0, "permuted": 0}


def _canon(items):
    try:
        return sorted(items, key=lambda x: (type(x).__name__, repr(x)))
    except Exception:
        return list(items)


def _permute(items):
    n = len(items)
    STATS["sets_iterated"] += 1
    if n < 2 or all(type(x) in (int, bool) for x in items):
        return items
    items = _canon(items)
    k = ORDER[0]
    if k == 0:
        return items
    STATS["permuted"] += 1
    if n <= 4:
        perms = list(itertools.permutations(range(n)))
        p = perms[k % math.factorial(n)]
        return [items[i] for i in p]
    m = k % 4
    if m == 1:
        return items[::-1]
    if m == 2:
        return items[n // 2:] + items[:n // 2]
    if m == 3:
        return (items[n // 2:] + items[:n // 2])[::-1]
    return items


def _wrapping(cls, names):
    for nm in names:
        base = getattr(cls.__mro__[1], nm)

        def f(self, *a, _base=base, _cls=cls):
            r = _base(self, *a)
            return _cls(r) if isinstance(r, (set, frozenset)) and not isinstance(r, _cls) else r
        f.__name__ = nm
        setattr(cls, nm, f)


class PermSet(set):
    __slots__ = ()

    def __iter__(self):
        return iter(_permute(list(set.__iter__(self))))

    def pop(self):
        if not self:
            return set.pop(self)
        x = next(iter(self))
        self.discard(x)
        return x

    def __reduce__(self):
        return (PermSet, (list(set.__iter__(self)),))


class PermFrozenSet(frozenset):
    __slots__ = ()

    def __iter__(self):
        return iter(_permute(list(frozenset.__iter__(self))))


_ALG = ["__or__", "__and__", "__sub__", "__xor__", "__ror__", "__rand__", "__rsub__", "__rxor__", "union", "intersection", "difference", "symmetric_difference", "copy"]
_wrapping(PermSet, _ALG)
_wrapping(PermFrozenSet, _ALG)


class _Rewrite(ast.NodeTransformer):
    def __init__(self):
        self.sites = 0

    def visit_Set(self, node):
        self.generic_visit(node)
        self.sites += 1
        return ast.copy_location(ast.Call(ast.Name("__verif_set__", ast.Load()), [ast.List(node.elts, ast.Load())], []), node)

    def visit_SetComp(self, node):
        self.generic_visit(node)
        self.sites += 1
        return ast.copy_location(ast.Call(ast.Name("__verif_set__", ast.Load()), [ast.ListComp(node.elt, node.generators)], []), node)

    def visit_Call(self, node):
        self.generic_visit(node)
        if isinstance(node.func, ast.Name) and node.func.id in ("set", "frozenset"):
            self.sites += 1
            node.func = ast.copy_location(ast.Name("__verif_%s__" % node.func.id, ast.Load()), node.func)
        elif isinstance(node.func, ast.Name) and node.func.id == "defaultdict" and node.args and isinstance(node.args[0], ast.Name) and node.args[0].id == "set":
            self.sites += 1
            node.args[0] = ast.copy_location(ast.Name("__verif_set__", ast.Load()), node.args[0])
        return node


class _Loader(importlib.machinery.SourceFileLoader):
    def get_code(self, fullname):
        path = self.get_filename(fullname)
        data = self.get_data(path)
        tree = ast.parse(data, path)
        rw = _Rewrite()
        tree = rw.visit(tree)
        STATS["sites"] += rw.sites
        ast.fix_missing_locations(tree)
        return compile(tree, path, "exec", dont_inherit=True)


class _Finder(importlib.abc.MetaPathFinder):
    def find_spec(self, name, path, target=None):
        if not (name == "pydoctor" or name.startswith("pydoctor.")) or name.startswith("pydoctor.test"):
            return None
        spec = importlib.machinery.PathFinder.find_spec(name, path, target)
        if spec is None or not isinstance(spec.loader, importlib.machinery.SourceFileLoader):
            return spec
        spec.loader = _Loader(spec.loader.name, spec.loader.path)
        return spec


_INSTALLED = [False]


def install():
    if _INSTALLED[0]:
        return
    _INSTALLED[0] = True
    builtins.__verif_set__ = PermSet
    builtins.__verif_frozenset__ = PermFrozenSet
    for m in [m for m in sys.modules if m == "pydoctor" or m.startswith("pydoctor.")]:
        del sys.modules[m]
    sys.meta_path.insert(0, _Finder())
