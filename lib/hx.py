"""Support code shared by all harnesses (imported by harness modules, under CrossHair and natively).

Environment read at import time (set by lib/runner.py per job):
  VERIF_TIER          quick | thorough            -> bounds
  VERIF_PART          JSON value                  -> concrete partition of the harness's input space
  VERIF_TWIN=1        vacuity twin: done() returns False, so reaching the end refutes `post: _`
  VERIF_IGNORE_KNOWN  known findings are not excused (used when replaying a listed witness)
  VERIF_REPLAY=1      native replay: note() records what the harness did
"""
import json
import os

TIER = os.environ.get("VERIF_TIER", "quick")
THOROUGH = TIER == "thorough"
PART = json.loads(os.environ.get("VERIF_PART", "null"))
TWIN = os.environ.get("VERIF_TWIN") == "1"
IGNORE_KNOWN = os.environ.get("VERIF_IGNORE_KNOWN") == "1"
REPLAY = os.environ.get("VERIF_REPLAY") == "1"

_HERE = os.path.dirname(os.path.dirname(os.path.abspath(__file__)))


def _load_known():
    try:
        with open(os.path.join(_HERE, "known_findings.json")) as f:
            data = json.load(f)
    except FileNotFoundError:
        return {}
    return {e["key"]: e for e in data.get("findings", []) if e.get("status") == "known"}


KNOWN = _load_known()
NOTES = []


def tier(quick, thorough):
    return thorough if THOROUGH else quick


def pick(x, lo, hi):
    """Concretise a symbolic int by comparisons (never crosshair.realize: see DESIGN 1.1)."""
    for v in range(lo, hi + 1):
        if x == v:
            return v
    raise AssertionError("pick: value outside [%d, %d]" % (lo, hi))


def pickb(b):
    return True if b else False


DONE_COUNT = [0]


def done(ok):
    """Every harness returns through done() at its real end; the twin refutes there."""
    DONE_COUNT[0] += 1
    if TWIN:
        return False
    return True if ok else False


def known(key):
    """True when `key` names a recorded finding (so the harness does not report it again)."""
    return (not IGNORE_KNOWN) and key in KNOWN


def note(**kw):
    if REPLAY:
        NOTES.append(kw)


def sample(**kw):
    """Records what the concrete case of this path looks like (evidence samples); active in native replay only."""
    if REPLAY:
        kw["_sample"] = True
        NOTES.append(kw)


REGISTRY = []


def harness(**meta):
    """Registers a CrossHair harness.  meta: parts, timeout (quick, thorough), per_path, unblock,
    cls (S/F/E), tracing, code (functions encoded), bounds (quick, thorough), outside, stubs."""

    def deco(fn):
        m = dict(meta)
        m["fn"] = fn.__name__
        m["kind"] = "xh"
        REGISTRY.append(m)
        return fn

    return deco


def solver_job(**meta):
    """Registers a direct z3 job: fn(part) -> dict(queries, unsat, nontrivial, solver_time_s,
    violations=[{...witness, replayed}], unknown, samples)."""

    def deco(fn):
        m = dict(meta)
        m["fn"] = fn.__name__
        m["kind"] = "z3"
        REGISTRY.append(m)
        return fn

    return deco
