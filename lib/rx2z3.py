"""Regular expressions of the real code as z3 regex terms (engine RX).

compile_rx(pattern_string_or_compiled) parses with CPython's own re parser and builds a z3 ReSort term whose
language is the set of strings the pattern FULL-matches (`re.fullmatch`; for patterns ending in \\Z, `re.match`
is the same thing).  Supported: literals, classes, ranges, negation, categories \\d \\s \\w (ASCII approximations
are NOT used: categories raise NotImplementedError unless listed), '.', greedy/lazy repeats (language-equal
under full match), groups, branches, leading ^ / \\A, trailing $ (= optional final newline) / \\Z.
Anything else raises NotImplementedError -> the caller reports the query inconclusive, never unsat.
"""
import re
import time

import z3

try:
    import re._parser as sre_parse
    import re._constants as sre_c
except ImportError:  # pragma: no cover
    import sre_parse
    import sre_constants as sre_c

STR = z3.StringSort()
RE = z3.ReSort(STR)
ANY = z3.AllChar(RE)
EMPTY = z3.Re(z3.StringVal(""))


def lit(c):
    return z3.Re(z3.StringVal(chr(c) if isinstance(c, int) else c))


def union(parts):
    parts = list(parts)
    if not parts:
        return z3.Empty(RE)
    return parts[0] if len(parts) == 1 else z3.Union(*parts)


def concat(parts):
    parts = list(parts)
    if not parts:
        return EMPTY
    return parts[0] if len(parts) == 1 else z3.Concat(*parts)


def not_chars(r):
    return z3.Intersect(ANY, z3.Complement(r))


def _unicode_space_chars():
    """exact set of code points matched by \\s in a str pattern (computed from re itself)"""
    rx = re.compile(r"\s")
    return [c for c in range(0x30000) if rx.match(chr(c))]


_SPACE = None


def _category(av):
    global _SPACE
    if av is sre_c.CATEGORY_SPACE:
        if _SPACE is None:
            _SPACE = union(lit(c) for c in _unicode_space_chars())
        return _SPACE
    if av is sre_c.CATEGORY_NOT_SPACE:
        return not_chars(_category(sre_c.CATEGORY_SPACE))
    raise NotImplementedError(av)


def _cls_items(items):
    neg = False
    parts = []
    for op, av in items:
        if op is sre_c.NEGATE:
            neg = True
        elif op is sre_c.LITERAL:
            parts.append(lit(av))
        elif op is sre_c.RANGE:
            parts.append(z3.Range(chr(av[0]), chr(av[1])))
        elif op is sre_c.CATEGORY:
            parts.append(_category(av))
        else:
            raise NotImplementedError(op)
    r = union(parts)
    return not_chars(r) if neg else r


def _conv(sub, flags, at_start=False, at_end=False):
    """at_start / at_end: this sequence begins / ends where the whole pattern begins / ends, so that ^ and $
    inside top-level groups and branches (as in `(^"..."$)|(^'...'$)`) keep their meaning under full match."""
    out = []
    items = list(sub)
    for idx, (op, av) in enumerate(items):
        first = at_start and idx == 0
        last = at_end and idx == len(items) - 1
        if op is sre_c.LITERAL:
            if flags & re.IGNORECASE:
                raise NotImplementedError("IGNORECASE")
            out.append(lit(av))
        elif op is sre_c.NOT_LITERAL:
            out.append(not_chars(lit(av)))
        elif op is sre_c.ANY:
            out.append(ANY if flags & re.DOTALL else not_chars(lit(10)))
        elif op is sre_c.IN:
            out.append(_cls_items(av))
        elif op in (sre_c.MAX_REPEAT, sre_c.MIN_REPEAT):
            lo, hi, body = av
            b = _conv(body, flags)
            if hi is sre_c.MAXREPEAT:
                r = z3.Star(b) if lo == 0 else concat([b] * lo + [z3.Star(b)])
            elif lo == 0 and hi == 1:
                r = z3.Option(b)
            else:
                r = z3.Loop(b, lo, hi)
            out.append(r)
        elif op is sre_c.SUBPATTERN:
            _g, addf, delf, body = av
            out.append(_conv(body, (flags | addf) & ~delf, first, last))
        elif op is sre_c.BRANCH:
            out.append(union(_conv(b, flags, first, last) for b in av[1]))
        elif op is sre_c.AT:
            if av in (sre_c.AT_BEGINNING, sre_c.AT_BEGINNING_STRING) and first:
                if av is sre_c.AT_BEGINNING and flags & re.MULTILINE:
                    raise NotImplementedError("MULTILINE ^")
                continue
            if av is sre_c.AT_END_STRING and last:
                continue
            if av is sre_c.AT_END and last:
                if flags & re.MULTILINE:
                    raise NotImplementedError("MULTILINE $")
                out.append(z3.Option(lit(10)))
                continue
            raise NotImplementedError("inner anchor %r" % (av,))
        else:
            raise NotImplementedError(op)
    return concat(out)


def compile_rx(pattern, flags=0):
    """-> z3 regex for the full-match language of `pattern` (str or compiled pattern).  For patterns that end in
    $ or \\Z, `re.match` accepts exactly this language."""
    if hasattr(pattern, "pattern"):
        flags |= pattern.flags & (re.DOTALL | re.MULTILINE | re.IGNORECASE | re.VERBOSE)
        pattern = pattern.pattern
    p = sre_parse.parse(pattern, flags)
    return _conv(list(p), p.state.flags, True, True)


def decode_z3_string(v):
    """python str of a z3 string model value (handles \\u{..} escapes)."""
    s = v.as_string()
    return re.sub(r"\\u\{([0-9a-fA-F]+)\}", lambda m: chr(int(m.group(1), 16)), s)


class Session:
    """One solver kept alive, push/pop per query; counts queries and time."""

    def __init__(self, timeout_ms=60000):
        self.s = z3.Solver()
        self.s.set("timeout", timeout_ms)
        self.x = z3.String("x")
        self.queries = 0
        self.time = 0.0

    def witness(self, *constraints):
        """-> ('unsat', None) | ('sat', str) | ('unknown', None) for exists x. constraints(x)."""
        self.s.push()
        try:
            for c in constraints:
                self.s.add(c)
            t0 = time.time()
            r = str(self.s.check())
            self.time += time.time() - t0
            self.queries += 1
            if r == "sat":
                return r, decode_z3_string(self.s.model()[self.x])
            return r, None
        finally:
            self.s.pop()

    def differ(self, a, b):
        return self.witness(z3.InRe(self.x, a) != z3.InRe(self.x, b))

    def not_included(self, a, b):
        """witness in L(a) \\ L(b)"""
        return self.witness(z3.InRe(self.x, z3.Intersect(a, z3.Complement(b))))
