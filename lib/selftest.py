"""Self-test with planted changes (not registered in MANIFEST; used while building).

usage: python -m lib.selftest [--prop C05] [--id NAME] [--tier quick] [-j N]
Each mutant in selftest/mutants.json is {id, property, file, old, new, expect, only?}:
/repo/pydoctor is copied to a scratch dir outside /repo and /verif, `old` (must occur exactly
`count` times, default 1) is replaced by `new`, the check runs with VERIF_REPO pointing at the copy,
and the outcome is compared with `expect` ("VIOLATION" or "quiet").  The copy is removed afterwards.
"""
import argparse
import concurrent.futures as cf
import json
import os
import shutil
import subprocess
import sys
import tempfile
import time

ROOT = os.path.dirname(os.path.dirname(os.path.abspath(__file__)))


def run_one(m, tier, jobs):
    d = tempfile.mkdtemp(prefix="verif_mut_")
    try:
        shutil.copytree("/repo/pydoctor", os.path.join(d, "pydoctor"), ignore=shutil.ignore_patterns("__pycache__"))
        path = os.path.join(d, m["file"])
        src = open(path).read()
        cnt = src.count(m["old"])
        if cnt != m.get("count", 1):
            return m, "SKIP(old occurs %d times)" % cnt, "", 0.0
        open(path, "w").write(src.replace(m["old"], m["new"]))
        env = dict(os.environ, VERIF_REPO=d, VERIF_JOBS=str(jobs))
        cmd = [os.path.join(ROOT, "check"), m["property"], "--tier", tier, "--no-evidence"]
        for o in m.get("only", []):
            cmd += ["--only", o]
        t0 = time.time()
        p = subprocess.run(cmd, capture_output=True, text=True, env=env)
        out = p.stdout + p.stderr
        got = "VIOLATION" if (p.returncode == 1 and "VIOLATION property=" in out) else ("quiet" if p.returncode == 0 else "ERROR(rc=%d)" % p.returncode)
        return m, got, out, time.time() - t0
    finally:
        shutil.rmtree(d, ignore_errors=True)


def main():
    ap = argparse.ArgumentParser()
    ap.add_argument("--prop")
    ap.add_argument("--id")
    ap.add_argument("--tier", default="quick")
    ap.add_argument("-j", type=int, default=2)
    ap.add_argument("-v", action="store_true")
    a = ap.parse_args()
    muts = json.load(open(os.path.join(ROOT, "selftest", "mutants.json")))
    muts = [m for m in muts if (not a.prop or m["property"] == a.prop) and (not a.id or m["id"] == a.id)]
    bad = 0
    with cf.ThreadPoolExecutor(max_workers=a.j) as ex:
        for m, got, out, dt in ex.map(lambda m: run_one(m, a.tier, max(2, 16 // a.j)), muts):
            ok = got == m.get("expect", "VIOLATION")
            bad += not ok
            print("%-4s %-40s expect=%-9s got=%-12s %.0fs %s" % (m["property"], m["id"], m.get("expect", "VIOLATION"), got, dt, "" if ok else "<<<<<< MISMATCH"), flush=True)
            if a.v or not ok:
                lines = [l for l in out.splitlines() if "VIOLATION" in l or "HARNESS-ERROR" in l or "INCONCLUSIVE" in l or "harness=" in l]
                print("\n".join("      " + l[:300] for l in lines[:8]))
    return 1 if bad else 0


if __name__ == "__main__":
    sys.exit(main())
