"""Native replay of one harness call (fresh interpreter, no CrossHair).
stdin: {"module":..., "fn":..., "args":[...], "kwargs":{...}}; stdout: REPLAY {json}"""
import importlib
import json
import sys
import traceback


def _dec(o):
    if isinstance(o, dict) and set(o) == {"__bytes__"}:
        return bytes(o["__bytes__"])
    if isinstance(o, list):
        return [_dec(x) for x in o]
    if isinstance(o, dict):
        return {k: _dec(v) for k, v in o.items()}
    return o


def main():
    req = _dec(json.load(sys.stdin))
    from lib import hx
    mod = importlib.import_module(req["module"])
    fn = getattr(mod, req["fn"])
    info = {"harness": req["fn"], "args": req["args"], "part": hx.PART}
    try:
        ret = fn(*req["args"], **(req.get("kwargs") or {}))
        info["returned"] = repr(ret)
        info["failed"] = not ret
    except Exception as e:  # an exception leaving the harness is a failed postcondition too
        allowed = getattr(fn, "__doc__", "") or ""
        info["raised"] = "%s: %s" % (type(e).__name__, e)
        info["traceback"] = traceback.format_exc()[-1500:]
        info["failed"] = True
        for ln in allowed.splitlines():
            ln = ln.strip()
            if ln.startswith("raises:") and type(e).__name__ in [x.strip() for x in ln[7:].split(",")]:
                info["failed"] = False
    info["notes"] = hx.NOTES
    print("REPLAY " + json.dumps(info, default=repr))


if __name__ == "__main__":
    main()
