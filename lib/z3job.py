"""Runs one direct-solver job: python -m lib.z3job <module> <fn>; prints Z3JOB {json}."""
import importlib
import json
import sys
import traceback


def main():
    from lib import hx
    mod = importlib.import_module(sys.argv[1])
    fn = getattr(mod, sys.argv[2])
    try:
        res = fn(hx.PART)
    except Exception as e:
        res = {"error": "%s: %s\n%s" % (type(e).__name__, e, traceback.format_exc()[-1200:])}
    print("Z3JOB " + json.dumps(res, default=repr))


if __name__ == "__main__":
    main()
