"""C16 - warnings point at the right place and every reported problem is counted.

K16a (S) astutils.extract_docstring_linenum: symbolic docstring text and unbounded line number.
K16b (S) Documentable.report: which line and which file a message names.
K16c (S) System.msg: counted iff thresh < 0; printed iff thresh <= verbosity <= topthresh (unbounded ints).
K16d (S) reportErrors / Field.report: offset arithmetic, once per (object, section).
K16e (S) driver.main exit status as a function of (parse errors, violations, -W).
"""
import ast
import contextlib
import copy
import io

from lib.hx import harness, pick, pickb, done, tier, PART, note

PROPERTY = "C16"
LEVEL = "model_checking"
ASSUMPTIONS = [
    "per-construct line numbers produced inside the epytext tokeniser / docutils (ParseError line, Field.lineno) are inputs here: "
    "symbolic values, not computed from docstring text (regex/docutils code is outside the reach of the engine)",
    "K16e: a System with a non-empty parse_errors set has violations >= 1 (reportErrors is the only writer of parse_errors and reports with thresh=-1)",
    "K16e: Options.from_args, get_system and make are replaced by stubs returning a System in an arbitrary state satisfying that invariant",
]

from pydoctor import astutils, model, driver, epydoc2stan
from pydoctor.epydoc.markup import ParseError
from pydoctor.options import Options
from crosshair.tracers import NoTracing

OPTS = Options.defaults()
OPTS.verbosity = -3
LEN_DOC = tier(8, 10)


# ------------------------------------------------------------------ K16a
@harness(
    parts=lambda: list(range(LEN_DOC + 1)),
    timeout=(200, 1200), cls="S", tracing="symbolic-through-pydoctor", twin="first",
    code=["pydoctor.astutils.extract_docstring_linenum", "pydoctor.astutils.extract_docstring"],
    bounds={"quick": "docstring text: any string of <= 8 characters; line number and shift k: unbounded ints", "thorough": "<= 10 characters"},
    outside="docstrings longer than the bound (the loop is per character and stops at the first non-blank one)",
)
def h_docstring_linenum(doc: str, lineno: int, k: int) -> bool:
    """
    pre: len(doc) == (PART if PART is not None else 2)
    post: _
    """
    node = ast.Constant(value=doc)
    node.lineno = lineno
    got = astutils.extract_docstring_linenum(node)
    # specification: the line of the first non-blank character (cleandoc strips leading blank lines)
    want = lineno
    for ch in doc:
        if ch == "\n":
            want += 1
        elif not ch.isspace():
            break
    node2 = ast.Constant(value=doc)
    node2.lineno = lineno + k
    shifted = astutils.extract_docstring_linenum(node2)
    return done(got == want and shifted == got + k)


LEN_DOC2 = tier(3, 4)


@harness(
    parts=lambda: list(range(LEN_DOC2 + 1)),
    timeout=(200, 1200), cls="S", tracing="symbolic-through-pydoctor", twin="first",
    code=["pydoctor.astutils.extract_docstring (line number it returns; inspect.cleandoc and the surrogate check run symbolically)", "pydoctor.astutils.extract_docstring_linenum"],
    bounds={"quick": "docstring text: any string of <= 3 characters; line number: unbounded int", "thorough": "<= 4 characters"},
    outside="longer docstrings",
)
def h_extract_docstring_line(doc: str, lineno: int) -> bool:
    """
    pre: len(doc) == (PART if PART is not None else 2)
    post: _
    """
    node = ast.Constant(value=doc)
    node.lineno = lineno
    got = astutils.extract_docstring_linenum(node)
    ln, text = astutils.extract_docstring(node)
    return done(ln == got)


# ------------------------------------------------------------------ K16b
SECTIONS = ["docstring", "resolve_identifier_xref", "parsing", "ast", "mro"]


def _mk_system():
    s = model.System(copy.copy(OPTS))
    s.msgs = []
    s.msg = lambda section, msg, thresh=0, **kw: s.msgs.append((section, msg, thresh))
    mod = model.Module(s, "pkgmod")
    s.addObject(mod)
    mod.parentMod = mod
    fn = model.Function(s, "fn", mod)
    fn.parentMod = mod
    s.addObject(fn)
    return s, mod, fn


@harness(
    parts=lambda: [[sec, who, hp] for sec in range(len(SECTIONS)) for who in range(2) for hp in range(3)],
    timeout=(200, 1200), cls="S", tracing="symbolic-through-pydoctor", twin="first",
    code=["pydoctor.model.Documentable.report", "pydoctor.model.Documentable.description"],
    bounds={"quick": "docstring_lineno, linenumber, lineno_offset, shift k in 0..3 (0 = unknown); 5 sections; object = module itself or a function in it; no source path / the module's / a different file than its module's (re-exported object)",
            "thorough": "ints in 0..6"},
    outside="line values beyond the bound (the arithmetic is linear; f-string formatting of unbounded symbolic ints does not terminate in CrossHair)",
)
def h_report(dl: int, ln: int, off: int, k: int) -> bool:
    """
    pre: 0 <= dl <= MAXI and 0 <= ln <= MAXI and 0 <= off <= MAXI and 0 <= k <= MAXI
    post: _
    """
    sec_i, who, has_path = PART if PART is not None else [0, 1, 0]
    section = SECTIONS[sec_i]

    def run(dl_, ln_):
        s, mod, fn = _mk_system()
        ob = mod if who == 0 else fn
        if has_path:
            from pathlib import Path
            mod.source_path = Path("/src/pkgmod.py")
            # has_path == 2: the object was defined in another file than its (re-exporting) module
            fn.source_path = mod.source_path if has_path == 1 else Path("/src/_impl.py")
        ob.docstring_lineno = dl_
        ob.linenumber = ln_
        ob.report("the message", section=section, lineno_offset=off)
        return s.msgs

    msgs = run(dl, ln)
    if len(msgs) != 1:
        return False
    sec, text, thresh = msgs[0]
    where = ("/src/_impl.py" if (has_path == 2 and who == 1) else "/src/pkgmod.py") if has_path else "pkgmod"
    # which line the statement asks for
    if section in ("docstring", "resolve_identifier_xref"):
        base = dl if dl else ln
    else:
        base = ln
    if base:
        line = str(base + off)
    elif off and who == 0:
        line = str(off)
    else:
        line = "???"
    ok = sec == section and thresh < 0 and text == "%s:%s: the message" % (where, line)
    # moving the definition down by k lines moves the reported line by k (when a line is known)
    if ok and base:
        msgs2 = run(dl + k if dl else dl, ln + k if ln else ln)
        ok = msgs2[0][1] == "%s:%s: the message" % (where, base + off + k)
    return done(ok)


MAXI = tier(3, 6)


# ------------------------------------------------------------------ K16c
@harness(
    timeout=(200, 900), cls="S", tracing="symbolic-through-pydoctor", twin="first",
    code=["pydoctor.model.System.msg"],
    bounds={"quick": "thresh, topthresh, verbosity: unbounded ints; once flag; second message identical or different; nonl", "thorough": "same"},
)
def h_msg(thresh: int, topthresh: int, verbosity: int, once: bool, same: bool, nonl: bool) -> bool:
    """
    post: _
    """
    opts = copy.copy(OPTS)
    opts.verbosity = verbosity
    s = model.System(opts)
    buf = io.StringIO()
    with contextlib.redirect_stdout(buf):
        s.msg("sec", "first", thresh=thresh, topthresh=topthresh, once=once, nonl=nonl)
        v1 = s.violations
        out1 = buf.getvalue()
        s.msg("sec", "first" if same else "second", thresh=thresh, topthresh=topthresh, once=once)
        v2 = s.violations
    out2 = buf.getvalue()[len(out1):]
    counted = 1 if thresh < 0 else 0
    shown = thresh <= verbosity and verbosity <= topthresh
    ok = v1 == counted and (("first" in out1) == shown)
    suppressed = once and same
    ok = ok and v2 == counted + (0 if suppressed else counted)
    ok = ok and (("first" in out2 or "second" in out2) == (shown and not suppressed))
    return done(ok)


# ------------------------------------------------------------------ K16d
@harness(
    parts=lambda: [0, 1, 2], timeout=(200, 900), cls="S", tracing="symbolic-through-pydoctor", twin="first",
    code=["pydoctor.epydoc2stan.reportErrors", "pydoctor.epydoc2stan.Field.report", "pydoctor.epydoc.markup.ParseError.linenum", "pydoctor.model.Documentable.report"],
    bounds={"quick": "docstring line D in 1..3, error line inside the docstring n in {unknown, 0..3} for two errors, field line 0..3; sections docstring / other; second report for the same object",
            "thorough": "values up to 6"},
)
def h_report_errors(D: int, n1: int, n2: int, twice: bool) -> bool:
    """
    pre: 1 <= D <= MAXI and -1 <= n1 <= MAXI and -1 <= n2 <= MAXI
    post: _
    """
    mode = PART if PART is not None else 0
    s, mod, fn = _mk_system()
    fn.docstring_lineno = D
    fn.linenumber = 1
    if mode == 2:
        f = epydoc2stan.Field(tag="param", arg="x", body=None, lineno=n1 if n1 >= 0 else 0, source=fn)
        f.report("field message")
        want = "pkgmod:%s: field message" % (D + (n1 if n1 >= 0 else 0))
        return done(len(s.msgs) == 1 and s.msgs[0][1] == want and s.msgs[0][2] < 0)
    section = "docstring" if mode == 0 else "colorize"
    errs = [ParseError("first problem", None if n1 < 0 else n1), ParseError("second problem", None if n2 < 0 else n2)]
    epydoc2stan.reportErrors(fn, errs, section=section)
    if pickb(twice):
        epydoc2stan.reportErrors(fn, errs, section=section)
    # docstring sections are positioned inside the docstring, others at the definition
    base = D if section == "docstring" else 1
    want = ["pkgmod:%s: bad %s: first problem" % (base + max(n1, 0), section),
            "pkgmod:%s: bad %s: second problem" % (base + max(n2, 0), section)]
    got = [m for (_sec, m, _t) in s.msgs]
    ok = got == want and all(t < 0 for (_s, _m, t) in s.msgs)
    ok = ok and sorted(s.parse_errors[section]) == ["pkgmod.fn"] and not s.parse_errors.get("other")
    epydoc2stan.reportErrors(fn, [], section="third")
    ok = ok and not s.parse_errors["third"] and len(s.msgs) == 2
    return done(ok)


# ------------------------------------------------------------------ K16e
class _StubOptions:
    opts = None

    @classmethod
    def from_args(cls, args):
        return cls.opts


@harness(
    timeout=(200, 900), cls="S", tracing="symbolic-through-pydoctor", twin="first",
    code=["pydoctor.driver.main (exit status computation)", "pydoctor.model.System.msg"],
    bounds={"quick": "violations: unbounded int >= 0; docstring errors present / other parse errors present / -W: booleans", "thorough": "same"},
    stubs=["driver.Options.from_args, driver.get_system, driver.make replaced: they return / accept a System whose parse_errors, violations and warnings_as_errors are the symbolic inputs"],
)
def h_exit_status(violations: int, doc_err: bool, other_err: bool, werror: bool) -> bool:
    """
    pre: violations >= 0
    pre: violations >= 1 or not (doc_err or other_err)
    post: _
    """
    opts = copy.copy(OPTS)
    opts.warnings_as_errors = werror
    opts.sourcepath = ["x"]
    opts.pdb = False
    s = model.System(opts)
    s.violations = violations
    if doc_err:
        s.parse_errors["docstring"].add("m.f")
    if other_err:
        s.parse_errors["colorize"].add("m.g")
    saved = (driver.Options, driver.get_system, driver.make)
    _StubOptions.opts = opts
    driver.Options = _StubOptions
    driver.get_system = lambda options: s
    driver.make = lambda system: None
    buf = io.StringIO()
    try:
        with contextlib.redirect_stdout(buf):
            rc = driver.main(["x"])
    finally:
        driver.Options, driver.get_system, driver.make = saved
    if violations > 0 and werror:
        want = 3
    elif doc_err or other_err:
        want = 2
    else:
        want = 0
    return done(rc == want)
