"""C08 (continued, narrow) - the REAL parsers on troublesome docstrings.

c08_faults.py decides the containment half against every behaviour a parser may have within its contract.  The other half of
the statement - "for any docstring text ... always succeeds" through the real regex/docutils parsers - cannot be put to a
solver.  What is decided here, as bounded-exhaustive exploration (class E), is a structure-aware generator of TROUBLESOME
docstrings: a docstring is a sequence of up to 2 (3) fragments from a menu of 29 fragments that are malformed, borderline or
foreign in at least one docformat (unbalanced inline markup, unknown tags/roles/directives, broken indentation, headings whose
title has no ASCII letters, malformed fields and sections, undefined substitutions and footnotes, broken tables, ...), attached
to a function (a neighbour function has a healthy docstring), under each docformat, with and without type processing.  The real
parser and renderer run; then
  (1) format_docstring / format_summary / format_toc and flattening return;
  (2) every marker word of the docstring is present in the rendered documentation, or a problem was reported against the object;
      when the docformat's parser gave up (epytext: any fatal error), ALL marker words are present, in source order;
  (3) every report names the object's module and a line inside the object;
  (4) the neighbour's documentation is identical to what it is next to a healthy docstring, and nothing is reported against it.
"""
import copy
import re

from lib.hx import harness, pick, pickb, done, tier, PART, note, known, sample

PROPERTY = "C08"
LEVEL = "model_checking"
ASSUMPTIONS = [
    "narrow: docstrings assembled from the fragment menu below at the stated size; nothing is claimed for other texts",
    "marker words are unique alphabetic tokens (wNNx...), so presence and order are decidable by position",
    "hangs are outside (each path runs under CrossHair's per-path timeout)",
]

from pydoctor import epydoc2stan
from pydoctor.stanutils import flatten, flatten_text
from crosshair.tracers import NoTracing
from lib import projects as PJ

FORMATS = ["epytext", "restructuredtext", "google", "numpy", "plaintext"]
# every fragment: lines; marker words are those matching MARK
FRAGMENTS = [
    ("plain", ["markaa plain markab text."]),
    ("unclosed_brace", ["markba B{markbb unclosed bold."]),
    ("unopened_brace", ["markca text} markcb after."]),
    ("unknown_tag", ["markda Q{markdb} unknown tag."]),
    ("nested_unclosed", ["markea B{I{markeb} markec."]),
    ("empty_link", ["markfa L{} and U{} markfb."]),
    ("bad_indent", ["markga first", "      markgb deeper without blank", "   markgc shallower."]),
    ("heading_cyrillic", ["Привет", "======", "", "markha under."]),
    ("heading_punct", ["???", "===", "", "markia under."]),
    ("heading_short_underline", ["markja Heading", "==", "", "markjb under."]),
    ("list_bad_indent", ["- markka item", " markkb misaligned continuation", "- markkc next"]),
    ("field_no_name", ["@param: markla no name", ":param: marklb no name"]),
    ("field_unknown", ["@nosuchfield x: markma text", ":nosuchfield x: markmb text"]),
    ("field_dup_return", ["@return: markna one", "@return: marknb two"]),
    ("unclosed_literal", ["markoa ``markob unclosed literal."]),
    ("unclosed_backtick", ["markpa `markpb unclosed role."]),
    ("unknown_role", ["markqa :nosuchrole:`markqb` after."]),
    ("unknown_directive", [".. nosuchdirective:: markra", "", "   markrb body", "", "markrc after."]),
    ("undefined_substitution", ["marksa |nosub| marksb [9]_ and markfoot_."]),
    ("broken_table", ["=====  =====", "markta  marktb", "=====", "", "marktc after."]),
    ("star_unbalanced", ["markua *markub and **markuc unbalanced."]),
    ("literal_block_empty", ["markva ends with double colon::", "", "markvb not indented."]),
    ("doctest_prompt_only", ["markwa before:", "", ">>>", "markwb after."]),
    ("google_section_unindented", ["Args:", "markxa not indented: markxb", "", "Returns:", "", "markxc"]),
    ("numpy_section_short", ["Parameters", "---", "markya : int", "    markyb text", "", "Raises", "------", "", "markyc"]),
    ("html_and_entities", ["markza <b>markzb</b> &amp; &nosuch; &#0; markzc."]),
    ("field_indented_then_dedented", ["  @note: markxd indented note", "@note: markxe dedented note"]),
    ("non_breaking_space", ["markxf non\u00a0breaking markxg."]),
    ("type_value_set_with_markup", [":param p: markxk described", ":type p: {`markxi`, 2}", "", "@param p: markxj described", "@type p: {C{markxh}, 2}"]),
]
NF = len(FRAGMENTS)
MARK = re.compile(r"mark[a-z]{2}")
GOOD_NEIGHBOUR = "Neighbour doc, nothing special."


def make(kinds):
    lines = ["Summary markzz line."]
    for k in kinds:
        lines += [""] + FRAGMENTS[k][1]
    return "\n".join(lines)


def module_source(doc):
    body = "".join(("    " + ln if ln else "") + "\n" for ln in doc.replace("\\", "\\\\").replace("'''", "\\'\\'\\'").split("\n"))
    src = "def g(a):\n    '''%s'''\n    return a\n\ndef f(p):\n    '''\n%s    '''\n    return p\n" % (GOOD_NEIGHBOUR, body)
    return src, 5, 5 + body.count("\n") + 1       # f's lines: def at 5, docstring until ...


_NEIGHBOUR = {}


def render_all(fmt, doc, processtypes, summary_first=False):
    src, lo, hi = module_source(doc)
    opts = copy.copy(PJ.OPTS)
    opts.docformat = fmt
    opts.processtypes = processtypes
    s = PJ.build({"m": (src, False)}, opts=opts)
    f, g = s.allobjects["m.f"], s.allobjects["m.g"]
    out = {}
    # each of the three is produced once per object, as the page writer does (field problems are reported at formatting time);
    # a run produces the summary (index pages) before the body, a single page the other way round
    if summary_first:
        out["summary"] = flatten(epydoc2stan.format_summary(f))
    stan = epydoc2stan.format_docstring(f)
    out["text"] = flatten_text(stan)        # (flattened once: the tree holds generators, a second flattening would find them exhausted)
    if not summary_first:
        out["summary"] = flatten(epydoc2stan.format_summary(f))
    toc = epydoc2stan.format_toc(f)
    out["toc"] = flatten(toc) if toc is not None else ""
    out["gdoc"] = flatten(epydoc2stan.format_docstring(g))
    out["gsum"] = flatten(epydoc2stan.format_summary(g))
    out["parsed_as"] = type(f.parsed_docstring).__name__
    return s, out, lo, hi


def check_real(fmt, kinds, processtypes, summary_first=False):
    doc = make(kinds)
    ctx = dict(docformat=fmt, fragments=[FRAGMENTS[k][0] for k in kinds], processtypes=processtypes, summary_first=summary_first, docstring=doc)
    sample(**ctx)
    try:
        s, out, lo, hi = render_all(fmt, doc, processtypes, summary_first)
    except Exception as e:
        import traceback
        note(why="an exception leaves format_docstring / format_summary / format_toc", exc=repr(e), where=traceback.format_exc().splitlines()[-6:], **ctx)
        return False
    msgs = [m for m in s.msgs if m[2] < 0]
    ctx["reports"] = [m[1][:140] for m in msgs][:6]
    # (3) reports name the module and a line of f
    texts = [m[1] for m in msgs]
    for m in msgs:
        mm = re.match(r"m:(\d+): ", m[1])
        if not mm:
            note(why="a report does not name the object's location", report=m[1], **ctx)
            return False
        ln = int(mm.group(1))
        if not (lo <= ln <= hi):
            note(why="a report points outside the object whose docstring is at fault", report=m[1], object_lines=[lo, hi], **ctx)
            return False
    # (4) the neighbour
    key = (fmt, processtypes)
    if key not in _NEIGHBOUR:
        s0, out0, _lo, _hi = render_all(fmt, "Healthy.", processtypes)
        _NEIGHBOUR[key] = (out0["gdoc"], out0["gsum"])
    if (out["gdoc"], out["gsum"]) != _NEIGHBOUR[key]:
        note(why="the documentation of another object changed", **ctx)
        return False
    if "m.g" in s.parse_errors.get("docstring", ()):
        note(why="another object is recorded as having a docstring problem", **ctx)
        return False
    # a docstring the parser gave up on (shown as plain text although the docformat is not plaintext) is a reported problem
    if fmt != "plaintext" and out["parsed_as"] == "ParsedPlaintextDocstring" and not msgs:
        note(why="the docstring was degraded to plain text but nothing was reported", **ctx)
        return False
    # (2) the words
    words = MARK.findall(doc)
    text = out["text"]
    missing = [w for w in words if w not in text]
    reported = bool(msgs)
    if missing and not reported:
        note(why="text of the docstring is lost and nothing was reported", missing=missing, visible=text[:400], **ctx)
        return False
    # the parser gave up on the docstring as a whole: the object's parsed docstring is the plain-text one (a failure inside one
    # field's body is reported too, but concerns that field only)
    gave_up = fmt == "plaintext" or (fmt == "epytext" and reported and out["parsed_as"] == "ParsedPlaintextDocstring")
    if fmt == "epytext" and reported and not missing:
        pass
    if gave_up:
        pos = -1
        for w in words:
            i = text.find(w, pos + 1)
            if i < 0:
                note(why="the parser gave up but the complete original text is not shown", word=w, visible=text[:400], **ctx)
                return False
            pos = i
        if fmt == "epytext" and reported:
            # the fallback shows the text as written: the markup characters are visible
            squash = lambda t: "".join(t.split())
            if squash(doc) not in squash(text):
                note(why="the parser gave up but the original text is not shown character for character", visible=text[:400], **ctx)
                return False
    # the summary is one line and never empty for a docstring with a summary line
    if "markzz" not in out["summary"] and not reported:
        note(why="summary lost without a report", summary=out["summary"][:200], **ctx)
        return False
    return True


MAXF = tier(2, 3)


@harness(
    parts=lambda: [[f, k] for f in range(5) for k in range(NF)], timeout=(300, 2400), cls="E", tracing="concrete-after-choice", twin="first",
    code=["pydoctor.epydoc.markup.epytext (parse, _tokenize*, _add_*, ParsedEpytextDocstring.to_node/get_toc)", "pydoctor.epydoc.markup.restructuredtext (parse_docstring, _EpydocReader, _SplitFieldsTranslator)",
          "pydoctor.epydoc.markup._napoleon / pydoctor.napoleon.docstring", "pydoctor.epydoc.markup.plaintext", "pydoctor.epydoc.docutils.build_table_of_content", "pydoctor.node2stan", "pydoctor.epydoc2stan (wrappers, FieldHandler, reportErrors)"],
    bounds={"quick": "docstrings of 1..2 fragments from a menu of 29 troublesome fragments, 5 docformats, type processing on/off, summary produced before or after the body (16 240 renderings)", "thorough": "1..3 fragments (455 000 renderings)"},
    outside="texts outside the generator; hangs; objects other than a function",
)
def h_real_parsers(k2: int, k3: int, pt: bool, sf: bool) -> bool:
    """
    pre: -1 <= k2 < NF and -1 <= k3 < NF
    pre: k2 >= 0 or k3 == -1
    pre: MAXF >= 3 or k3 == -1
    post: _
    """
    fi, k1 = PART if PART is not None else [0, 1]
    k2 = pick(k2, -1, NF - 1)
    k3 = pick(k3, -1, NF - 1)
    pt = pickb(pt)
    kinds = [k for k in (k1, k2, k3) if k >= 0]
    with NoTracing():
        ok = check_real(FORMATS[fi], kinds, pt, pickb(sf))
    return done(ok)


# ------------------------------------------------------------------ a name defined twice: the problems of the definition that wins are reported
RKINDS = ["class", "function", "property", "method", "nested_class"]


def redef_source(kind, doc1, doc2):
    def q(doc, ind):
        return "'''\n" + "".join((ind + ln if ln else "") + "\n" for ln in doc.replace("\\", "\\\\").split("\n")) + ind + "'''\n"
    if kind == "class":
        one = lambda d: "class f:\n    " + q(d, "    ") + "    pass\n"
        return one(doc1) + one(doc2) if doc1 is not None else one(doc2)
    if kind == "function":
        one = lambda d: "def f():\n    " + q(d, "    ") + "    pass\n"
        return one(doc1) + one(doc2) if doc1 is not None else one(doc2)
    inner = {"property": lambda d: "    @property\n    def f(self):\n        " + q(d, "        ") + "        return 1\n",
             "method": lambda d: "    def f(self):\n        " + q(d, "        ") + "        return 1\n",
             "nested_class": lambda d: "    class f:\n        " + q(d, "        ") + "        pass\n"}[kind]
    return "class Host:\n" + (inner(doc1) if doc1 is not None else "") + inner(doc2)


def reports_of(fmt, src):
    opts = copy.copy(PJ.OPTS)
    opts.docformat = fmt
    s = PJ.build({"m": (src, False)}, opts=opts)
    for o in list(s.allobjects.values()):
        epydoc2stan.format_docstring(o)
        epydoc2stan.format_summary(o)
    return [re.sub(r"^m:\d+: ", "", m[1]) for m in s.msgs if m[2] < 0]


def check_redef(fmt, kind, k1, k2):
    doc1 = make([k1])
    doc2 = make([k2]).replace("mark", "sark")        # the second definition's words differ from the first's
    alone = reports_of(fmt, redef_source(kind, None, doc2))
    both = reports_of(fmt, redef_source(kind, doc1, doc2))
    sample(docformat=fmt, kind=kind, first=FRAGMENTS[k1][0], second=FRAGMENTS[k2][0], source=redef_source(kind, doc1, doc2))
    missing = [r for r in alone if r not in both]
    if missing:
        note(why="a problem in the docstring of the definition that wins is not reported when an earlier definition of the same name exists",
             kind=kind, docformat=fmt, first=FRAGMENTS[k1][0], second=FRAGMENTS[k2][0], not_reported=missing[:3], reported=both[:6], source=redef_source(kind, doc1, doc2))
        return False
    return True


@harness(
    parts=lambda: [[f, k] for f in range(4) for k in range(len(RKINDS))], timeout=(300, 1200), cls="E", tracing="concrete-after-choice", twin="first",
    code=["pydoctor.model.System.handleDuplicate", "System.parse_errors", "pydoctor.epydoc2stan.reportErrors/parse_docstring/extract_fields", "pydoctor.astbuilder (docstrings parsed at build time: classes, properties)"],
    bounds={"quick": "a class / function / property / method / nested class defined twice in one scope; the first and the second definition's docstring each one of the 26 troublesome fragments; 4 docformats: every problem reported for the second definition alone is also reported when the first definition precedes it", "thorough": "same"},
    outside="three or more definitions; definitions in different branches of an if",
)
def h_redefinition(k1: int, k2: int) -> bool:
    """
    pre: 0 <= k1 < NF and 0 <= k2 < NF
    post: _
    """
    fi, ki = PART if PART is not None else [0, 0]
    k1 = pick(k1, 0, NF - 1)
    k2 = pick(k2, 0, NF - 1)
    with NoTracing():
        ok = check_redef(FORMATS[fi], RKINDS[ki], k1, k2)
    return done(ok)
