"""C09 (narrow) - rendering a docstring keeps its text.

The property as stated quantifies over all well-formed docstrings; the code on the path is regex tokenisers, napoleon and docutils
(DESIGN.md §4), so nothing symbolic can be said about it.  Decided here, as bounded-exhaustive exploration (class E), is the
quantifier's own generator at small size: a document is a sequence of up to 2 (3) BLOCKS from a menu (paragraph, paragraph with
inline markup, bullet list with a nested item, ordered list, literal block with markup-looking characters, doctest block,
section heading, version directive with explanation and body, admonition, definition list) followed by a subset of FIELDS (parameter, return, raises, note), serialised to each docformat; the real
parser and renderer run on it; then
  (1) every word of the description appears in the visible text, in source order;
  (2) literal and doctest blocks are reproduced character for character (line by line);
  (3) a plaintext docstring is reproduced exactly;
  (4) every field's text appears in the visible text (or a warning was reported for that object);
  (5) no markup character of the docformat leaks where it was consumed as markup (the emphasised word appears without its delimiters).
"""
import copy
import re

from lib.hx import harness, pick, pickb, done, tier, PART, note, known, sample

PROPERTY = "C09"
LEVEL = "exploration"
ASSUMPTIONS = [
    "narrow claim: documents assembled from the block/field menu below at the stated size; nothing is claimed for other docstrings",
    "words are unique tokens, so 'in source order' is decidable by position",
    "the visible text is stanutils.flatten_text of epydoc2stan.format_docstring(obj)",
]

from pydoctor import epydoc2stan
from pydoctor.stanutils import flatten_text
from crosshair.tracers import NoTracing
from lib import projects as PJ

FORMATS = ["epytext", "restructuredtext", "google", "numpy", "plaintext"]
BLOCKS = ["para", "inline", "bullets", "ordered", "literal", "doctest", "heading", "directive", "admonition", "deflist"]
NB = len(BLOCKS)
FIELDS = ["param", "return", "raises", "note"]
LITERAL_LINES = ["lit <tag> & \"q\"  two  spaces", "  deeper *not bold* L{x} `y`", "back\\slash @notfield: :nofield:"]
# one line per token class of the doctest colorizer (prompt, continuation, decorator, def / async def / class with its name, keyword, builtin, string,
# comment, output, traceback): every one must come back character for character
DOCTEST_LINES = [">>> print('<b>' + \"&\")", "<b>&",
                 ">>> @deco(1)", "... async def fetch_rows(conn, n=1):  # comment <x> & more", "...     return await conn.get('a\"b') + len(\"t&q\")",
                 ">>> class Kx(Base): pass", ">>> def plain_fn(a): return None", ">>> raise ValueError(\"boom\")",
                 "Traceback (most recent call last):", "ValueError: boom"]


def block(kind, n, fmt):
    """-> (lines, words in source order, exact lines)"""
    rst = fmt != "epytext"
    w = lambda s: "%s%d" % (s, n)
    if kind == "para":
        return [w("alpha") + " " + w("beta"), w("gamma") + " " + w("delta") + "."], [w("alpha"), w("beta"), w("gamma"), w("delta")], []
    if kind == "inline":
        # (the last two marked-up words are ADJACENT: only white space - here a line break - between two inline elements)
        if rst:
            line = "%s **%s** and *%s* then ``%s`` end%d **%s** *%s*" % (w("pre"), w("bold"), w("ital"), w("code"), n, w("badj"), w("iadj"))
            line2 = "*%s* ``%s``." % (w("jadj"), w("cadj"))
        else:
            line = "%s B{%s} and I{%s} then C{%s} end%d B{%s} I{%s}" % (w("pre"), w("bold"), w("ital"), w("code"), n, w("badj"), w("iadj"))
            line2 = "I{%s} C{%s}." % (w("jadj"), w("cadj"))
        return [line, line2], [w("pre"), w("bold"), w("ital"), w("code"), "end%d" % n, w("badj"), w("iadj"), w("jadj"), w("cadj")], []
    ind = "" if rst else "  "        # epytext wants lists indented
    if kind == "bullets":
        lines = ["- %s first" % w("item"), "  %s continued" % w("cont"), "- %s second" % w("jtem"), "", "  - %s nested" % w("ktem"), "", "- %s third" % w("ltem")]
        return [ind + ln if ln else ln for ln in lines], [w("item"), w("cont"), w("jtem"), w("ktem"), w("ltem")], []
    if kind == "ordered":
        lines = ["1. %s one" % w("num"), "2. %s two" % w("nun")]
        return [ind + ln for ln in lines], [w("num"), w("nun")], []
    if kind == "literal":
        lines = ["%s intro::" % w("intro"), ""] + ["    " + ln for ln in LITERAL_LINES] + ["", "%s after." % w("outro")]
        return lines, [w("intro"), w("outro")], list(LITERAL_LINES)
    if kind == "doctest":
        lines = ["%s before:" % w("dt"), ""] + (["    " + ln for ln in DOCTEST_LINES] if not rst else list(DOCTEST_LINES)) + ["", "%s after." % w("dtend")]
        return lines, [w("dt"), w("dtend")], list(DOCTEST_LINES)
    if kind == "heading":
        title = "%s Title" % w("Head")
        return [title, "=" * len(title), "", "%s under heading." % w("body")], [w("Head"), w("body")], []
    if kind in ("directive", "admonition", "deflist") and not rst:
        # epytext has no such construct: the same words as paragraphs
        return [w("expl") + " explanation.", "", w("dbody") + " body.", "", w("ditem") + " item."], [w("expl"), w("dbody"), w("ditem")], []
    if kind == "directive":
        name = ["deprecated", "versionchanged", "versionadded"][n % 3]
        lines = [".. %s:: 1.%d" % (name, n), "   %s explanation." % w("expl"), "", "   %s body paragraph." % w("dbody"), "", "   - %s in a list" % w("ditem"), "", "%s after." % w("dafter")]
        return lines, [w("expl"), w("dbody"), w("ditem"), w("dafter")], []
    if kind == "admonition":
        name = ["note", "warning", "seealso"][n % 3]
        lines = [".. %s:: %s inline." % (name, w("nfirst")), "", "   %s second paragraph." % w("nsecond"), "", "%s after." % w("nafter")]
        return lines, [w("nfirst"), w("nsecond"), w("nafter")], []
    if kind == "deflist":
        lines = [w("term"), "    %s definition text." % w("defn"), "", w("uerm"), "    %s other." % w("eefn"), "", "%s after." % w("lafter")]
        return lines, [w("term"), w("defn"), w("uerm"), w("eefn"), w("lafter")], []
    raise KeyError(kind)


def fields_text(fmt, mask):
    """-> (lines, [(field kind, word)])"""
    names = [f for i, f in enumerate(FIELDS) if (mask >> i) & 1]
    words = []
    lines = []
    if fmt == "epytext":
        for f in names:
            wd = "f%sword" % f
            words.append((f, wd))
            lines.append({"param": "@param p: %s text", "return": "@return: %s text", "raises": "@raise ValueError: %s text", "note": "@note: %s text"}[f] % wd)
    elif fmt == "restructuredtext":
        for f in names:
            wd = "f%sword" % f
            words.append((f, wd))
            lines.append({"param": ":param p: %s text", "return": ":returns: %s text", "raises": ":raises ValueError: %s text", "note": ":note: %s text"}[f] % wd)
    elif fmt == "google":
        for f in names:
            wd = "f%sword" % f
            words.append((f, wd))
            lines += {"param": ["Args:", "    p: %s text" % wd, ""], "return": ["Returns:", "    %s text" % wd, ""], "raises": ["Raises:", "    ValueError: %s text" % wd, ""],
                      "note": ["Note:", "    %s text" % wd, ""]}[f]
    elif fmt == "numpy":
        for f in names:
            wd = "f%sword" % f
            words.append((f, wd))
            lines += {"param": ["Parameters", "----------", "p : int", "    %s text" % wd, ""], "return": ["Returns", "-------", "int", "    %s text" % wd, ""],
                      "raises": ["Raises", "------", "ValueError", "    %s text" % wd, ""], "note": ["Note", "----", "%s text" % wd, ""]}[f]
    return lines, words


def make_doc(fmt, kinds, mask):
    lines = ["Summary0 line."]
    words = ["Summary0"]
    exact = []
    for n, k in enumerate(kinds, 1):
        bl, bw, be = block(k, n, fmt if fmt != "plaintext" else "restructuredtext")
        lines += [""] + bl
        words += bw
        exact += be
    fl, fw = fields_text(fmt, mask)
    if fl:
        lines += [""] + fl
    return "\n".join(lines), words, exact, fw


def check_doc(fmt, kinds, mask):
    doc, words, exact, fwords = make_doc(fmt, kinds, mask)
    src = "def f(p):\n    '''\n" + "".join(("    " + ln if ln else "") + "\n" for ln in doc.replace("\\", "\\\\").replace("'''", "\\'\\'\\'").split("\n")) + "    '''\n    return p\n"
    sample(docformat=fmt, docstring=doc)
    opts = copy.copy(PJ.OPTS)
    opts.docformat = fmt
    s = PJ.build({"m": (src, False)}, opts=opts)
    o = s.allobjects["m.f"]
    stan = epydoc2stan.format_docstring(o)
    text = flatten_text(stan)
    warned = [m for m in s.msgs if m[2] < 0 and m[0] == "docstring"]      # unresolved type names (int, ValueError) are not parse problems
    ctx = dict(docformat=fmt, blocks=kinds, fields=[f for f, _w in fwords], docstring=doc, visible=text)
    if warned and fmt != "plaintext":
        # the generated documents are well-formed: a warning means the generator or the parser disagrees about the markup
        note(why="a well-formed generated docstring produced a warning", warnings=[m[1][:120] for m in warned], **ctx)
        return False
    if fmt == "plaintext":
        if "".join(text.split()) != "".join(o.docstring.split()) or any(ln.strip() not in text for ln in o.docstring.split("\n") if ln.strip()):
            note(why="plaintext docstring is not reproduced exactly", **ctx)
            return False
        return True
    pos = -1
    for wd in words:
        m_ = re.search(r"(?<![A-Za-z0-9])%s(?![A-Za-z0-9])" % re.escape(wd), text[pos + 1:])
        i = pos + 1 + m_.start() if m_ else -1
        if i < 0 and wd in text:
            note(why="a word of the description is glued to its neighbour (white space between words lost)", word=wd, **ctx)
            return False
        if i < 0:
            if wd in text:
                note(why="a word of the description appears out of source order", word=wd, **ctx)
            else:
                note(why="a word of the description is missing from the rendered text", word=wd, **ctx)
            return False
        pos = i
    for ln in exact:
        if ln.strip() not in text:
            note(why="literal / doctest block line not reproduced character for character", line=ln, **ctx)
            return False
    if "literal" in kinds:
        # the block may keep a common indentation; relative indentation and line structure must be the source's
        i = text.find(LITERAL_LINES[0])
        j = text.rfind("\n", 0, i) + 1
        prefix = text[j:i]
        if prefix.strip() or "\n".join(prefix + ln for ln in LITERAL_LINES) not in text:
            note(why="literal block not reproduced character for character (relative indentation / line structure)", **ctx)
            return False
    if exact:
        # character-for-character reproduction needs an element that preserves white space
        from lib import crawl
        from pydoctor.stanutils import flatten
        root = crawl.parse_html(flatten(stan))
        pres = [e.alltext() for e in root.walk() if e.tag == "pre"]
        for ln in exact:
            if not any(ln.strip() in p for p in pres):
                note(why="literal / doctest text is not inside a white-space preserving element", line=ln, **ctx)
                return False
    for f, wd in fwords:
        if wd not in text:
            note(why="field text is missing from the rendered documentation (and no warning was reported)", field=f, **ctx)
            return False
    # consumed markup does not leak: the emphasised words appear without their delimiters
    for n, k in enumerate(kinds, 1):
        if k == "inline":
            for leak in ("**bold%d**" % n, "B{bold%d}" % n, "*ital%d*" % n, "I{ital%d}" % n, "``code%d``" % n, "C{code%d}" % n):
                if leak in text:
                    note(why="inline markup delimiters shown as text", leak=leak, **ctx)
                    return False
    return True


MAXB = tier(2, 3)


@harness(
    parts=lambda: [[f, b] for f in range(5) for b in range(-1, NB)], timeout=(300, 2400), cls="E", tracing="concrete-after-choice", twin="first",
    code=["pydoctor.epydoc.markup.epytext (_tokenize, parse, _colorize, to_node)", "pydoctor.epydoc.markup.restructuredtext (_SplitFieldsTranslator)", "pydoctor.napoleon.docstring.GoogleDocstring/NumpyDocstring",
          "pydoctor.node2stan.HTMLTranslator", "pydoctor.epydoc.doctest.colorize_doctest_body/colorize_codeblock_body", "pydoctor.epydoc2stan.format_docstring/FieldHandler", "pydoctor.epydoc.markup.plaintext"],
    bounds={"quick": "documents of <= 2 blocks from a menu of 10 (paragraph, inline markup, bullet list with nested item, ordered list, literal block, doctest block, section heading, version directive with explanation and body, admonition, definition list) + every subset of 4 fields (param, return, raises, note), 5 docformats (8 880 documents)",
            "thorough": "<= 3 blocks (88 880 documents)"},
    outside="documents outside the generator; deeper nesting; tables, other directives",
)
def h_text_kept(b2: int, b3: int, mask: int) -> bool:
    """
    pre: -1 <= b2 < NB and -1 <= b3 < NB and 0 <= mask <= 15
    pre: b2 >= 0 or b3 == -1
    pre: MAXB >= 3 or b3 == -1
    post: _
    """
    fi, b1 = PART if PART is not None else [0, 0]
    b2 = pick(b2, -1, NB - 1)
    b3 = pick(b3, -1, NB - 1)
    mask = pick(mask, 0, 15)
    if b1 < 0 and b2 >= 0:
        return True
    kinds = [BLOCKS[b] for b in (b1, b2, b3) if b >= 0]
    with NoTracing():
        ok = check_doc(FORMATS[fi], kinds, mask)
    return done(ok)


# ------------------------------------------------------------------ fields: every instance shown or reported
FKINDS = ["param", "type", "return", "rtype", "raises", "note", "see", "consolidated"]
NFK = len(FKINDS)


def field_instance(fmt, kind, n):
    """the n-th (1 or 2) field of that kind -> (lines, marker word or None)"""
    wd = "fw%s%d" % (kind, n)
    if kind == "consolidated":
        # reST consolidated fields: a bullet list whose items have several blocks (second paragraph, nested list, literal block)
        if fmt != "restructuredtext":
            return [], None
        name = ["q", "r"][n - 1]
        head = [":Parameters:"] if n == 1 else []
        return head + ["    - `%s`: %sa first paragraph" % (name, wd), "", "      %sb second paragraph" % wd, "", "      - %sc nested item" % wd, "", "      %sd literal::" % wd, "", "          %se = literal" % wd, ""], [wd + x for x in "abcde"]
    if fmt in ("epytext", "restructuredtext"):
        a, b = ("@", "") if fmt == "epytext" else (":", ":")
        # the second 'param' documents the same parameter again; the second 'raises' the same exception again
        tmpl = {"param": "%sparam p%s: %s text", "type": "%stype p%s: %s", "return": "%sreturn%s: %s text", "rtype": "%srtype%s: %s",
                "raises": "%sraise ValueError%s: %s text", "note": "%snote%s: %s text", "see": "%ssee%s: %s text"}[kind]
        tmpl = tmpl.replace("%s:", ":", 1) if fmt == "epytext" else tmpl.replace("%s:", "%s", 1)
        if fmt == "epytext":
            line = tmpl % (a, wd)
        else:
            line = tmpl % (a, b, wd)
        return [line], wd
    if fmt in ("google", "numpy") and kind == "param" and n == 2:
        # the second parameter's description has several blocks: introduction ending in '::', a literal block indented DEEPER than
        # what follows, then a paragraph back at the description's own indentation
        if fmt == "google":
            return ["Args:", "    q: %sa intro::" % wd, "", "            %sb = literal" % wd, "", "        %sc after the block." % wd, ""], [wd + x for x in "abc"]
        return ["Parameters", "----------", "q : int", "    %sa intro::" % wd, "", "            %sb = literal" % wd, "", "    %sc after the block." % wd, ""], [wd + x for x in "abc"]
    if fmt == "google":
        sec = {"param": ["Args:", "    p: %s text" % wd], "type": None, "return": ["Returns:", "    %s text" % wd], "rtype": None,
               "raises": ["Raises:", "    ValueError: %s text" % wd], "note": ["Note:", "    %s text" % wd], "see": ["See Also:", "    %s text" % wd]}[kind]
        return (sec + [""], wd) if sec else ([], None)
    if fmt == "numpy":
        sec = {"param": ["Parameters", "----------", "p : int", "    %s text" % wd], "type": None, "return": ["Returns", "-------", "int", "    %s text" % wd], "rtype": None,
               "raises": ["Raises", "------", "ValueError", "    %s text" % wd], "note": ["Note", "----", "%s text" % wd], "see": ["See Also", "--------", "%s : text" % wd]}[kind]
        return (sec + [""], wd) if sec else ([], None)
    raise KeyError(fmt)


def check_fields(fmt, counts):
    lines = ["Summary0 line.", ""]
    words = []
    for kind, c in zip(FKINDS, counts):
        for n in range(1, c + 1):
            ls, wd = field_instance(fmt, kind, n)
            lines += ls
            for w_ in ([wd] if isinstance(wd, str) else (wd or [])):
                words.append((kind, n, w_))
    doc = "\n".join(lines)
    src = "def f(p, q=1, r=2):\n    '''\n" + "".join(("    " + ln if ln else "") + "\n" for ln in doc.split("\n")) + "    '''\n    return p\n"
    sample(docformat=fmt, docstring=doc)
    opts = copy.copy(PJ.OPTS)
    opts.docformat = fmt
    s = PJ.build({"m": (src, False)}, opts=opts)
    o = s.allobjects["m.f"]
    text = flatten_text(epydoc2stan.format_docstring(o))
    warned = [m[1] for m in s.msgs if m[2] < 0 and "Cannot find link target" not in m[1]]
    for kind, n, wd in words:
        if wd not in text and not warned:
            note(why="the text of a field is silently discarded (not shown, nothing reported)", field=kind, instance=n, word=wd, docformat=fmt, docstring=doc, visible=text[:300])
            return False
    return True


@harness(
    parts=lambda: [[f, a] for f in range(4) for a in range(3)], timeout=(300, 1200), cls="E", tracing="concrete-after-choice", twin="first",
    code=["pydoctor.epydoc2stan.FieldHandler.handle_* / format", "pydoctor.epydoc.markup.epytext (fields)", "pydoctor.epydoc.markup.restructuredtext._SplitFieldsTranslator", "pydoctor.napoleon.docstring (sections)"],
    bounds={"quick": "every multiset of fields with 0..2 instances of each of 7 kinds (param, type, return, rtype, raises, note, see), 4 docformats (2 187 docstrings each; type/rtype have no google/numpy form); reStructuredText also with 0..2 items of a consolidated :Parameters: bullet list whose items have a second paragraph, a nested list and a literal block (6 561)", "thorough": "same"},
    outside="three or more instances of one kind; the other field kinds",
)
def h_fields_kept(c1: int, c2: int, c3: int, c4: int, c5: int, c6: int, c7: int) -> bool:
    """
    pre: 0 <= c1 <= 2 and 0 <= c2 <= 2 and 0 <= c3 <= 2 and 0 <= c4 <= 2 and 0 <= c5 <= 2 and 0 <= c6 <= 2 and 0 <= c7 <= 2
    post: _
    """
    fi, c0 = PART if PART is not None else [0, 1]
    if fi != 1 and c7 != 0:
        return True        # consolidated fields exist in reStructuredText only
    cs = [c0, pick(c1, 0, 2), pick(c2, 0, 2), pick(c3, 0, 2), pick(c4, 0, 2), pick(c5, 0, 2), pick(c6, 0, 2), pick(c7, 0, 2)]
    with NoTracing():
        ok = check_fields(FORMATS[fi], cs)
    return done(ok)
