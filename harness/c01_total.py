"""C01 (narrow) - a run never aborts: packages assembled from a menu of awkward module files.

The full property ("any source tree, any docstring") is out of reach of the technique (DESIGN.md §4): the code on the path is
C parsers, docutils and regex-driven parsers.  What IS decided here, as bounded-exhaustive exploration (class E): for every
package whose modules are drawn from a menu of module files chosen to be awkward for a static analyser - files that do not
parse, special assignments with un-evaluable values, every statement form of the grammar that the builder special-cases - the
real analysis (System.addPackage on real files + process()), the real rendering (TemplateWriter, inventory) and the real exit
status computation complete; every file is still listed as a module; every file that does not parse is reported by a message
that names it; the other files are documented.
"""
import copy
import io
import contextlib
import os
import shutil
import tempfile
from pathlib import Path

from lib.hx import harness, pick, pickb, done, tier, PART, note, known, sample

PROPERTY = "C01"
LEVEL = "exploration"
ASSUMPTIONS = [
    "narrow claim: packages of 2 (thorough 3) modules drawn from the menu below, x docformat; nothing is claimed for other inputs",
    "driver.main's exit status computation is exercised with get_system / make replaced by the system built here (as in C16's K16e)",
    "CrossHair runs with file-system events unblocked; sources and output live under mkdtemp directories removed on every path",
]

from pydoctor import model, driver
from pydoctor.options import Options
from crosshair.tracers import NoTracing
from lib import crawl

OPTS = Options.defaults()
OPTS.verbosity = -3

MENU = [
    ("ok", b"'''Fine.'''\ndef f(x: int = 1) -> int:\n    '''f, see L{g}'''\n    return x\nclass K:\n    '''K'''\n    def m(self): pass\n"),
    ("syntax_error", b"def (:\n    pass\n"),
    ("null_byte", b"x = 1\n\x00\n"),
    ("bad_indent", b"def f():\n\tif x:\n        return 1\n"),
    ("not_utf8", b"# coding: utf-8\ns = '\xff\xfe'\n"),
    ("bad_coding", b"# -*- coding: no-such-codec -*-\nx = 1\n"),
    ("all_unhashable", b"__all__ = [{[1]: 2}]\ndef f(): pass\n"),
    ("all_not_list", b"__all__ = 'f'\n__all__ += ['g']\ndef f(): pass\n"),
    ("all_missing_name", b"__all__ = ['nope', 3, f'x']\n"),
    ("docformat_unhashable", b"__docformat__ = {[1]: 2}\n'''doc'''\n"),
    ("docformat_int", b"__docformat__ = 1\n"),
    ("docformat_unknown", b"'''Doc B{x}.'''\n__docformat__ = 'no-such-format'\ndef f():\n    '''doc'''\n"),
    ("deep_nesting", b"x = " + b"(" * 150 + b"1" + b")" * 150 + b"\n"),
    ("odd_decorators", b"import functools\n@functools.lru_cache(maxsize=None)\n@(lambda f: f)\ndef f(): pass\nclass C:\n    @property\n    @staticmethod\n    def p(): pass\n    @p.setter\n    def p(self, v): pass\n    @q.setter\n    def q(self, v): pass\n"),
    ("metaclass_kw", b"class M(type): pass\nclass C(*bases, metaclass=M, **kw):\n    __slots__ = ('a', 'b')\n    x: 'C'\n"),
    ("match_stmt", b"def f(p):\n    match p:\n        case {'k': v, **rest}:\n            return v\n        case [1, *others] | (2, others):\n            return others\n        case _:\n            class Inner: pass\n"),
    ("walrus_star", b"a, *b = (y := [1, 2, 3])\n(c) = d = e, f = 1, 2\nclass K:\n    g, (h, i) = 1, (2, 3)\n    [j] = [k] = [4]\n"),
    ("global_nonlocal", b"def outer():\n    x = 1\n    def inner():\n        nonlocal x\n        global y\n        y = x\n    return inner\ndel outer\n"),
    ("type_alias", b"type X[T] = list[T]\ndef f[T: int](a: T) -> T: return a\nclass G[T]: pass\n"),
    ("async_stuff", b"async def agen():\n    async for i in aiter():\n        yield i\n    async with a as b, c as d:\n        await b\nl = [i async for i in agen()]\n"),
    ("except_star", b"try:\n    import x\nexcept* (ImportError, ValueError) as eg:\n    def fallback(): pass\nelse:\n    class A: pass\nfinally:\n    z = 1\n"),
    ("surrogate_const", b"S = '\\ud800'\nB = b'\\xff'\n'''attribute doc \\ud800'''\ndef f(a='\\udfff'): pass\n"),
    ("control_doc", b"def f():\n    '''form\\x0cfeed \\x1b escape \\x00 nul'''\nclass C:\n    '''\\x08'''\n"),
    ("star_import_self", b"from . import *\nfrom .. import nothing\nfrom .m0 import *\nimport pkg\n"),
    ("weird_all_ops", b"from .m0 import __all__ as a0\n__all__ = ['x']\n__all__ += a0\n__all__.extend(['y'])\n__all__.append(1)\n"),
    ("overloads_only", b"from typing import overload\n@overload\ndef f(a: int) -> int: ...\n@overload\ndef f(a: str) -> str:\n    '''doc on overload'''\nf = 1\n"),
    ("dup_everything", b"class X:\n    def m(self): pass\n    def m(self): pass\nclass X:\n    m = 1\ndef X(): pass\nX = 2\n"),
    ("fields_bad", b"class C:\n    '''\n    @ivar: no name\n    @ivar a b: two names\n    @type q: L{nope}\n    @param self: x\n    @raise: e\n    @return\n    '''\n    def __init__(self):\n        self.a = self.b = 1\n        '''doc'''\n"),
    ("lambda_defaults", b"f = lambda a=(lambda: 1), *b, c={1: [2, (3,)]}, **d: a\ndef g(x=f(), y=[i for i in range(3) if i], z=not 1 < 2 < 3): pass\nCONST: 'Final[int]' = 1 if g else 2\n"),
    ("regex_consts", b"import re\nA = re.compile('(?L)\\\\w+')\nB = re.compile('[.*')\nC = re.compile(b'(?u)x')\nD = re.compile('a{99999999999}')\nE = re.compile('(?P<n>x)(?P=n)(?#c)', re.I | 64)\ndef f(p=re.compile('(?au)x'), q=re.compile(r'\\1')): pass\n"),
    ("empty", b""),
    # modules that reach their siblings through imports, so that a sibling is first processed from inside another module
    ("import_m1", b"'''Imports the next module.'''\nfrom pkg.m1 import helper\nfrom . import m1 as alias\nimport pkg.m1\nclass Sub(alias.Base, helper): pass\n"),
    ("import_star_m1_m2", b"from .m1 import *\nfrom .m2 import *\nfrom .m1 import (a as b, c)\n__all__ = ['b']\n"),
    ("empty_string_annotations", b"from typing import List, Annotated, TypeAlias\nx: '' = 1\ny = 2 # type: ''\nX: TypeAlias = ''\ndef f(a: List[' '], b: '[', c: 'pass', d: '1 ; 2', e: Annotated[int, '']) -> '# later': pass\nclass C:\n    @property\n    def p(self) -> '': pass\n"),
    ("rewrapped_methods", b"class C:\n    def f(self): pass\n    f = staticmethod(f)\n    f = classmethod(f)\n    @staticmethod\n    def g(): pass\n    g = staticmethod(g)\n    @property\n    def h(self): pass\n    h = classmethod(h)\n    k = staticmethod(k)\n    def k(self): pass\ndef top(): pass\ntop = staticmethod(top)\n"),
    # a second ROOT module 'other' stands next to the package; one file imports it, another re-exports it from there
    ("imports_root", b"import other\nfrom other import x\nimport other as alias\n"),
    ("reexports_root_via_m1", b"from pkg.m1 import other\nfrom pkg.m1 import alias as renamed\n__all__ = ['other', 'renamed']\n"),
    # calls and assignments the extensions and special cases look at, with arguments they do not expect
    ("attrs_odd_arguments", b"import attr\n@attr.s(auto_attribs={[]: 1})\nclass A:\n    x: int = 1\n@attr.s(auto_attribs=unknown_name, kw_only=[1])\nclass B:\n    y = attr.ib(type=[], default=attr.Factory)\nz = attr.ib()\n"),
    ("implementer_odd_arguments", b"from zope.interface import implementer, Interface, implements\ndef some_function(): pass\nCONST = 1\n@implementer(some_function, CONST, 3, Interface)\nclass C:\n    def m(self): pass\n    x = 1\n"),
    ("setter_on_non_property", b"class C:\n    class x:\n        pass\n    @x.setter\n    def x(self, v): pass\n    y = 1\n    @y.getter\n    def y(self): pass\n"),
    ("doc_assignment", b"class C:\n    pass\nC.__doc__ = 'surrogate \\ud800 here'\ndef f(): pass\nf.__doc__ = 3\nC.__doc__ += 'x'\nunknown.__doc__ = 'y'\nclass D:\n    pass\nD.__doc__ = {[]: 1}\nD.__doc__ = -'s'\n"),
    ("subclasses_all_superseded", b"class Base:\n    def m(self): pass\nclass Sub(Base):\n    def m(self): pass\nclass Sub:\n    pass\nclass Base2:\n    pass\nclass _H(Base2):\n    pass\nclass _H:\n    pass\n"),
    ("huge_numbers", b"X = 0x" + b"f" * 5000 + b"\nY = -0o" + b"7" * 6000 + b"\nZ = 1e999\nW = 1" + b"0" * 400 + b"j\ndef f(a=0x" + b"f" * 5000 + b"): pass\n"),
    ("docformat_names_a_non_parser_module", b"'''doc'''\n__docformat__ = '_types'\ndef f():\n    '''doc'''\n"),
    ("docformat_dunder_init", b"'''doc'''\n__docformat__ = '__init__'\nclass K:\n    '''doc B{x}'''\n"),
    ("annotation_only_declarations", b"from typing import TypeAlias, ClassVar, Final\nPending: TypeAlias\nclass K:\n    Coord: TypeAlias\n    v: ClassVar\n    w: Final\n    def __init__(self):\n        self.u: TypeAlias\n"),
    ("import_m0_cycle",b"from pkg.m0 import f, K\nfrom pkg import m0, m1, m2\nclass L(K): pass\n"),
]
NM = len(MENU)
UNPARSABLE = {"syntax_error", "null_byte", "bad_indent", "not_utf8", "bad_coding"}
FORMATS = ["epytext", "restructuredtext", "google", "numpy", "plaintext"]
UNBLOCK = ["open", "os.mkdir", "os.symlink", "os.remove", "os.rmdir", "shutil.rmtree", "os.scandir", "os.listdir", "os.rename", "os.unlink", "shutil.copyfile",
           "shutil.copytree", "os.chmod", "os.utime", "shutil.copystat", "shutil.copymode", "os.makedirs", "os.stat", "os.lstat"]


def check_run(indices, fmt):
    d = tempfile.mkdtemp(prefix="verif_c01_")
    out = None
    try:
        pkg = os.path.join(d, "pkg")
        os.mkdir(pkg)
        with open(os.path.join(pkg, "__init__.py"), "wb") as f:
            f.write(b"'''Package.'''\n")
        names = []
        for n, i in enumerate(indices):
            nm = "m%d" % n
            names.append((nm, MENU[i][0]))
            with open(os.path.join(pkg, nm + ".py"), "wb") as f:
                f.write(MENU[i][1])
        with open(os.path.join(d, "other.py"), "wb") as f:
            f.write(b"'''A second root.'''\nx = 1\n")
        opts = copy.copy(OPTS)
        opts.docformat = fmt
        opts.projectbasedirectory = Path(d)
        s = model.System(opts)
        msgs = []

        def msg(section, m, thresh=0, **kw):
            msgs.append((section, m, thresh))
            if thresh < 0:
                s.violations += 1
        s.msg = msg
        ctx = dict(modules=[k for _n, k in names], docformat=fmt)
        sample(modules=[k for _n, k in names], docformat=fmt, files={nm + ".py": MENU[i][1].decode("latin-1") for (nm, _k), i in zip(names, indices)})
        try:
            s.addModuleFromPath(Path(d) / "other.py", None)
            s.addPackage(Path(pkg), None)
            s.process()
        except Exception as e:
            note(why="analysis aborts with an uncaught exception", exc=repr(e), **ctx)
            return False
        for nm, kind in names:
            # (a module may have been moved by a re-export - C07's subject - but it is still a documented module)
            if "pkg." + nm not in s.allobjects and not any(isinstance(o, model.Module) and o.source_path is not None and o.source_path.name == nm + ".py" for o in s.allobjects.values()):
                note(why="a file of the package is not listed as a module", module=nm, **ctx)
                return False
            if kind in UNPARSABLE and not any((nm + ".py") in m and t < 0 for _s, m, t in msgs):
                note(why="a file that does not parse is not reported by a message naming it", module=nm, kind=kind, msgs=msgs[:5], **ctx)
                return False
        if not any(k in UNPARSABLE for _n, k in names) and indices[0] == 0 and "pkg.m0.f" not in s.allobjects:
            note(why="a healthy file is not documented", **ctx)
            return False
        if indices[0] == 0 and "pkg.m0.K.m" not in s.allobjects:
            note(why="an unparsable or awkward sibling prevented a healthy file from being documented", **ctx)
            return False
        try:
            out = crawl.render(s, "classic")
        except Exception as e:
            note(why="rendering aborts with an uncaught exception", exc=repr(e), **ctx)
            return False
        for f in ("index.html", "objects.inv", "searchindex.json", "all-documents.html", "pkg.m0.html"):
            if f not in out.files:
                note(why="expected output file missing", file=f, **ctx)
                return False
        # exit status as the real main computes it
        saved = (driver.Options, driver.get_system, driver.make)

        class _O:
            @classmethod
            def from_args(cls, a):
                return opts
        opts.sourcepath = [Path(pkg)]
        opts.pdb = False
        rcs = []
        try:
            driver.Options, driver.get_system, driver.make = _O, (lambda o: s), (lambda sy: None)
            for w in (False, True):
                opts.warnings_as_errors = w
                with contextlib.redirect_stdout(io.StringIO()):
                    rcs.append(driver.main(["x"]))
        except Exception as e:
            note(why="exit status computation raised", exc=repr(e), **ctx)
            return False
        finally:
            driver.Options, driver.get_system, driver.make = saved
        if any(rc not in (0, 2, 3) for rc in rcs):
            note(why="undocumented exit status", rcs=rcs, **ctx)
            return False
        return True
    finally:
        if out is not None:
            out.close()
        shutil.rmtree(d, ignore_errors=True)


NMOD = tier(2, 3)


@harness(
    parts=lambda: list(range(NM)), timeout=(300, 3000), cls="E", tracing="concrete-after-choice", twin="first", unblock=UNBLOCK,
    code=["pydoctor.model.System.addPackage/analyzeModule/process/processModule", "pydoctor.astbuilder.ASTBuilder.parseFile/processModuleAST", "pydoctor.astbuilder.parseAll/parseDocformat/ModuleVistor.*",
          "pydoctor.model.defaultPostProcess", "pydoctor.templatewriter.writer.TemplateWriter", "pydoctor.sphinx.SphinxInventoryWriter", "pydoctor.driver.main (exit status)"],
    bounds={"quick": "a root module 'other' + packages of 2 modules drawn from a menu of 47 module files (5 that do not parse - syntax error, NUL byte, inconsistent indentation, undecodable bytes, unknown coding -, un-evaluable __all__ / __docformat__, a __docformat__ naming a module that is not a parser, extension decorators (attr.s, implementer, property setters) with arguments they do not expect, __doc__ assignments, numbers too long to print, modules importing their siblings in either direction, every special-cased statement form, duplicates, bad fields, empty file), docformat chosen by the pair (2 209 packages)",
            "thorough": "3 modules (103 823 packages) x docformat chosen by the triple"},
    outside="everything not assembled from the menu; hangs; the command-line front end (options parsing, intersphinx download)",
)
def h_run_completes(i1: int, i2: int) -> bool:
    """
    pre: 0 <= i1 < NM and 0 <= i2 < NM
    pre: NMOD >= 3 or i2 == 0
    post: _
    """
    i0 = PART if PART is not None else 0
    i1 = pick(i1, 0, NM - 1)
    i2 = pick(i2, 0, NM - 1)
    idx = [i0, i1] + ([i2] if NMOD >= 3 else [])
    with NoTracing():
        ok = check_run(idx, FORMATS[(i0 + i1 + i2) % 5])
    return done(ok)


# ------------------------------------------------------------------ root names that collide with names the writer uses itself
ROOT_NAMES = ["index", "classIndex", "moduleIndex", "nameIndex", "undoccedSummary", "searchindex", "objects", "apidocs", "plain"]


def check_root_named(ni, package, two_roots):
    d = tempfile.mkdtemp(prefix="verif_c01r_")
    out = None
    name = ROOT_NAMES[ni]
    try:
        if package:
            os.mkdir(os.path.join(d, name))
            with open(os.path.join(d, name, "__init__.py"), "wb") as f:
                f.write(b"'''Root package.'''\ndef f():\n    '''f'''\nclass K:\n    '''K'''\n")
            with open(os.path.join(d, name, "sub.py"), "wb") as f:
                f.write(b"'''Sub-module.'''\n")
            root = Path(d) / name
        else:
            with open(os.path.join(d, name + ".py"), "wb") as f:
                f.write(b"'''Root module.'''\ndef f():\n    '''f'''\nclass K:\n    '''K'''\n")
            root = Path(d) / (name + ".py")
        with open(os.path.join(d, "other.py"), "wb") as f:
            f.write(b"'''A second root.'''\n")
        opts = copy.copy(OPTS)
        opts.projectbasedirectory = Path(d)
        s = model.System(opts)
        s.msg = lambda *a, **k: None
        ctx = dict(root=name, kind="package" if package else "module", roots=2 if two_roots else 1)
        sample(**ctx)
        try:
            if package:
                s.addPackage(root, None)
            else:
                s.addModuleFromPath(root, None)
            if two_roots:
                s.addModuleFromPath(Path(d) / "other.py", None)
            s.process()
            out = crawl.render(s, "classic")
        except Exception as e:
            note(why="the run aborts with an uncaught exception", exc=repr(e)[:300], **ctx)
            return False
        for f in ("index.html", "objects.inv", "searchindex.json", "all-documents.html"):
            if f not in out.files:
                note(why="expected output file missing", file=f, **ctx)
                return False
        return True
    finally:
        if out is not None:
            out.close()
        shutil.rmtree(d, ignore_errors=True)


@harness(
    timeout=(300, 600), cls="E", tracing="concrete-after-choice", twin="first", unblock=UNBLOCK,
    code=["pydoctor.templatewriter.writer.TemplateWriter.writeSummaryPages (single-root symlink)", "writeIndividualFiles", "pydoctor.model.Documentable.url", "pydoctor.sphinx.SphinxInventoryWriter"],
    bounds={"quick": "a root module or package named like a file the writer creates itself (index, classIndex, moduleIndex, nameIndex, undoccedSummary, searchindex, objects) or not, alone or next to a second root: the run completes and writes its files", "thorough": "same"},
    outside="what the colliding pages then contain (a root named like a summary page replaces it: name collision, reported nowhere)",
)
def h_root_named(ni: int, package: bool, two: bool) -> bool:
    """
    pre: 0 <= ni < 9
    post: _
    """
    ni = pick(ni, 0, 8)
    package = pickb(package)
    two = pickb(two)
    with NoTracing():
        ok = check_root_named(ni, package, two)
    return done(ok)
