"""C18 (narrow, continued) - K18c: the iteration order of every set pydoctor builds must not reach the output.

The hash seed acts on a run through one door only: the iteration order of sets (dicts are insertion-ordered).  That order
is made a variable: pydoctor's modules are loaded from /repo's current source through lib.setorder's import hook, which
turns every set construction in pydoctor's own code into a set that iterates in the permutation chosen by the solver
(one index for the whole run).  A three-root project of mixed kinds is analysed and rendered by the real writer under the
canonical order and under the chosen order; the two output trees must be byte-identical - every page, index, search file
and inventory.
"""
from lib import setorder
setorder.install()                      # before anything imports pydoctor

import copy
import datetime
import os

from lib.hx import harness, pick, pickb, done, tier, PART, note, known, sample

PROPERTY = "C18"
LEVEL = "model_checking"
ASSUMPTIONS = [
    "the hash seed reaches a run only through the iteration order of sets built by pydoctor's own code (set(), frozenset(), set displays and "
    "comprehensions, defaultdict(set)); sets built inside third-party libraries and by C code are not permuted",
    "one permutation index governs every set of the run (sets of <= 4 members: every permutation; larger: 4 rearrangements)",
    "the build time is fixed, as the statement requires",
    "both runs happen in one process; the process-wide integer counters on pydoctor's classes (ChildTable.last_id, ExpandableItem.last_ExpandableItem_id) are reset before each, as a fresh process would have it",
]

from crosshair.tracers import NoTracing
from lib import projects as PJ
from lib import crawl

SOURCES = {
    "pkg": ('"""Package pkg.\n\nIntro\n=====\n\nSee L{pkg.a.C} and L{solo.helper}.\n\nDetails\n=======\n\nMore.\n"""\nfrom pkg.c import *\n__all__ = ["P", "Q", "R"]\n', True),
    "pkg.a": ('"""Module a."""\n__docformat__ = "restructuredtext"\nimport enum\nclass C:\n    """Class C.\n\n    :newfield custom: Custom, Customs\n    :custom: one\n    :custom: two\n    :ivar v: the v\n    :cvar w: the w\n    """\n    w = 1\n'
              '    def __init__(self):\n        self.v = 2\n    def m(self, a, b=1):\n        """Method m, see `D` and `pkg.b.f`.\n\n        :param a: A.\n        :param b: B.\n        :raises ValueError: never\n        :raises KeyError: never\n        """\n'
              'class D(C):\n    """Class D."""\n    def m(self, a, b=2): pass\nclass E(C):\n    """Class E."""\nclass F(D, E):\n    """Class F."""\nclass Colour(enum.Enum):\n    """An enum."""\n    RED = 1\n    GREEN = 2\n'
              'class Err(ValueError):\n    """An exception."""\n', False),
    "pkg.b": ('"""Module b, see L{f}, L{X}, L{pkg.a.F} and L{nope.missing}."""\nfrom pkg.a import C, D as Dee\nfrom solo import helper\n__all__ = ["f", "X", "C", "helper"]\ndef f(x: C, y: "Dee" = None) -> C:\n    """Function f, see L{C} and L{Dee.m}.\n\n    @param x: The x.\n    @param z: No such parameter.\n    @type x: L{C}\n    """\n'
              'X: C = None\n"""Variable X."""\nS = {"b", "a", "c"}\n"""A set constant."""\nFS = frozenset(["q", "p"])\n', False),
    "pkg.z": ('"""Module z: zope interfaces."""\nfrom zope.interface import Interface, implementer\nclass IRead(Interface):\n    """Read side."""\n    def close():\n        """Stop reading."""\n'
              'class IWrite(Interface):\n    """Write side."""\n    def close():\n        """Stop writing."""\nclass IMon(Interface):\n    """Monitored."""\n    def close():\n        """Emit statistics."""\n'
              '@implementer(IRead, IWrite, IMon)\nclass BaseT:\n    """Base transport."""\n    def close(self):\n        pass\nclass Tcp(BaseT):\n    """Tcp transport: inherits its interfaces."""\n    def close(self):\n        pass\n', False),
    "pkg.c": ('"""Module c: no __all__; its public names are star-imported and re-exported by the package."""\nclass P:\n    """P"""\nclass Q(P):\n    """Q"""\ndef R():\n    """R"""\n', False),
    "solo": ('"""Root module solo.\n\n@see: L{pkg}\n@author: A\n@author: B\n"""\ndef helper():\n    """Helper; B{bold} I{it}.\n\n    Heading\n    =======\n\n    Text.\n    """\nclass K:\n    """K."""\n    def helper(self): pass\n', False),
    "tool": ('"""Root module tool."""\nfrom pkg.a import *\nfrom pkg.b import *\nclass T(C):\n    """T, subclass across roots."""\n', False),
}
NROOTS = [["pkg", "pkg.a", "pkg.b", "pkg.c", "pkg.z", "solo", "tool"], ["pkg", "pkg.a", "pkg.b", "pkg.c", "pkg.z", "solo"], ["pkg", "pkg.a", "pkg.b", "pkg.c", "pkg.z"]]
THEMES = ["classic", "readthedocs"]
MAXORDER = tier(6, 24)


def observe(order, roots, theme, named, previous=None):
    """previous: None = fresh output directory; otherwise the (roots, theme) of a run whose output the directory already holds"""
    setorder.ORDER[0] = order
    fresh_process()
    try:
        opts = copy.copy(PJ.OPTS)
        opts.projectname = "given" if named else None
        opts.sidebarexpanddepth = 2
        s = None
        sources = {k: SOURCES[k] for k in roots}
        s = PJ.build(sources, opts=opts)
        s.buildtime = datetime.datetime(2020, 1, 2, 3, 4, 5)
        if not named:
            # the guess made by driver.get_system (h_root_names_order decides it for every order of root_names)
            s.projectname = "guess"
        into = None
        if previous is not None:
            import tempfile
            into = tempfile.mkdtemp(prefix="verif_render_")
            sp = PJ.build({k: SOURCES[k] for k in previous[0]}, opts=opts)
            sp.buildtime = datetime.datetime(2020, 1, 2, 3, 4, 5)
            sp.projectname = s.projectname
            crawl.render(sp, previous[1], into=into)
            fresh_process()
        out = crawl.render(s, theme, into=into)
        try:
            files = {}
            for f in sorted(out.files):
                with open(os.path.join(out.dir, f), "rb") as fh:
                    files[f] = fh.read()
            return files, [m[:2] for m in s.msgs if m[2] <= 0]
        finally:
            out.close()
    finally:
        setorder.ORDER[0] = 0


_BASE = {}
_COUNTERS = {}


def fresh_process():
    """a run is a fresh process: process-wide integer counters kept on pydoctor's classes (ChildTable.last_id,
    ExpandableItem.last_ExpandableItem_id, ...) start from the value they have after import"""
    import sys
    import enum
    import pydoctor.templatewriter.pages.sidebar, pydoctor.templatewriter.pages.table, pydoctor.templatewriter.summary, pydoctor.templatewriter.search  # noqa
    first = not _COUNTERS
    for mname, mod in list(sys.modules.items()):
        if not (mname == "pydoctor" or mname.startswith("pydoctor.")) or mod is None:
            continue
        for cname, cls in list(vars(mod).items()):
            if isinstance(cls, type) and cls.__module__ == mname and not issubclass(cls, enum.Enum):
                for a, v in list(vars(cls).items()):
                    if type(v) is int:
                        if first:
                            _COUNTERS[(mname, cname, a)] = v
                        elif (mname, cname, a) in _COUNTERS:
                            setattr(cls, a, _COUNTERS[(mname, cname, a)])


def check_sets(order, ri, ti, named):
    key = (ri, ti, named)
    if key not in _BASE:
        _BASE[key] = observe(0, NROOTS[ri], THEMES[ti], named)
    base, bmsgs = _BASE[key]
    before = setorder.STATS["permuted"]
    got, gmsgs = observe(order, NROOTS[ri], THEMES[ti], named)
    sample(roots=[r for r in NROOTS[ri] if "." not in r], theme=THEMES[ti], set_order_index=order, sets_permuted_in_this_run=setorder.STATS["permuted"] - before,
           set_construction_sites_rewritten=setorder.STATS["sites"], files_compared=len(got))
    ctx = dict(roots=[r for r in NROOTS[ri] if "." not in r], theme=THEMES[ti], set_order_index=order, project_name_given=named)
    if set(got) != set(base):
        note(why="the set of output files depends on the iteration order of a set", only_one_side=sorted(set(got) ^ set(base))[:6], **ctx)
        return False
    for f in sorted(base):
        if got[f] != base[f]:
            a, b = base[f], got[f]
            i = next((i for i in range(min(len(a), len(b))) if a[i] != b[i]), min(len(a), len(b)))
            note(why="an output file depends on the iteration order of a set built by pydoctor", file=f, canonical=a[max(0, i - 60):i + 60].decode("utf-8", "replace"),
                 permuted=b[max(0, i - 60):i + 60].decode("utf-8", "replace"), **ctx)
            return False
    if setorder.STATS["sites"] == 0 or (len(ctx["roots"]) > 1 and setorder.STATS["permuted"] == before):
        note(why="harness: no set was iterated in a permuted order (the import hook is not active)", **ctx)
        return False
    return True


UNBLOCK = ["open", "os.mkdir", "os.symlink", "os.remove", "os.rmdir", "shutil.rmtree", "os.scandir", "os.listdir", "os.rename", "os.unlink", "shutil.copyfile",
           "shutil.copytree", "os.chmod", "os.utime", "shutil.copystat", "shutil.copymode", "os.makedirs", "os.stat", "os.lstat"]


@harness(
    parts=lambda: [[r, t] for r in range(3) for t in range(2)], timeout=(300, 900), cls="F", tracing="concrete-after-choice", twin="first", unblock=UNBLOCK,
    code=["every module of pydoctor (loaded from source with set constructions rewritten)", "pydoctor.templatewriter.summary.IndexPage.rootkind", "pydoctor.templatewriter.search", "pydoctor.model.System (parse_errors, once_msgs)",
          "pydoctor.astutils (names)", "pydoctor.epydoc.markup.epytext (_SYMBOLS, _section_slugs)", "pydoctor.epydoc.markup.restructuredtext (_newfields)", "pydoctor.templatewriter.writer.TemplateWriter", "pydoctor.sphinx.SphinxInventoryWriter"],
    bounds={"quick": "a project of 3 / 2 / 1 roots of mixed kinds (package + modules; epytext and reST docstrings with sections, custom fields, cross-root subclasses, star imports, unresolvable links, zope interfaces with same-named members inherited through a base class, names star-imported from a module without __all__ and re-exported), 2 themes, project name given or not, "
                     "6 set-order indices (every permutation of every set of <= 3 members; 4 rearrangements of larger sets): full output trees compared byte for byte",
            "thorough": "24 set-order indices (every permutation of every set of <= 4 members)"},
    stubs=["set constructions in pydoctor's source (set(), frozenset(), {..}, set comprehensions, defaultdict(set)) build lib.setorder.PermSet / PermFrozenSet: real sets whose __iter__ and pop follow the chosen permutation"],
    outside="sets built by third-party code (lunr, docutils, twisted) and by C code; different orders for different sets within one run; other projects",
)
def h_set_order(order: int, named: bool) -> bool:
    """
    pre: 1 <= order < MAXORDER
    post: _
    """
    ri, ti = PART if PART is not None else [0, 0]
    order = pick(order, 1, MAXORDER - 1)
    named = pickb(named)
    with NoTracing():
        ok = check_sets(order, ri, ti, named)
    return done(ok)


def check_reuse(ri, ti, named, order):
    """the output directory already holds the result of the previous run of the same project and options"""
    key = (ri, ti, named)
    if key not in _BASE:
        _BASE[key] = observe(0, NROOTS[ri], THEMES[ti], named)
    base, _m = _BASE[key]
    got, _m2 = observe(order, NROOTS[ri], THEMES[ti], named, previous=(NROOTS[ri], THEMES[ti]))
    sample(roots=[r for r in NROOTS[ri] if "." not in r], theme=THEMES[ti], directory_holds="the previous run of the same project", set_order_index=order, files_compared=len(base))
    ctx = dict(roots=[r for r in NROOTS[ri] if "." not in r], theme=THEMES[ti], project_name_given=named, set_order_index=order)
    if set(got) != set(base):
        note(why="re-running into the directory of the previous run changes the set of files", only_one_side=sorted(set(got) ^ set(base))[:6], **ctx)
        return False
    for f in sorted(base):
        if got[f] != base[f]:
            note(why="a file written into a reused output directory differs from the one written into a fresh directory", file=f, **ctx)
            return False
    return True


@harness(
    parts=lambda: [[r, t] for r in range(3) for t in range(2)], timeout=(300, 900), cls="F", tracing="concrete-after-choice", twin="first", unblock=UNBLOCK,
    code=["pydoctor.templatewriter.writer.TemplateWriter.prepOutputDirectory/writeSummaryPages/writeIndividualFiles", "pydoctor.templatewriter.TemplateLookup / StaticTemplate.write", "pydoctor.sphinx.SphinxInventoryWriter.generate",
          "pydoctor.templatewriter.search (write_lunr_index, AllDocuments)"],
    bounds={"quick": "the 3 projects x 2 themes x name given or not of h_set_order; the output directory holds the previous run of the same project (single root: including the <root>.html -> index.html symlink) and the second run "
                     "uses set-order index 0..2: same set of files, every file byte-identical to a run into a fresh directory", "thorough": "same"},
    stubs=[],
    outside="a directory holding anything else than the previous run of the same sources (observed, outside the statement: after a single-root run, a run with several roots writes the root's page THROUGH the stale <root>.html symlink over index.html)",
)
def h_reused_dir(named: bool, order: int) -> bool:
    """
    pre: 0 <= order <= 2
    post: _
    """
    ri, ti = PART if PART is not None else [0, 0]
    named = pickb(named)
    order = pick(order, 0, 2)
    with NoTracing():
        ok = check_reuse(ri, ti, named, order)
    return done(ok)
