"""C07 - a re-exported object is documented once, where exported, and stays reachable.
C06's schedule dimension is shared: every shape is analysed in every reachable processing order.

Class E: solver-enumerated project shapes (lib/templates.py) x every schedule (package module first, sub-modules in any order).
"""
from lib.hx import harness, pick, pickb, done, tier, PART, note, known, sample

PROPERTY = "C07"
LEVEL = "exploration"
ASSUMPTIONS = [
    "each object has at most one re-exporter (package __init__ or a sibling module; plain, renamed or star import)",
    "star imports follow Python: they import the origin's __all__ if it has one, else its public names - `import *` from an origin whose __all__ omits X binds nothing and nothing moves",
    "cyclic shapes are not part of C07's quantifier; duplicate definitions of X are C02's subject",
]

from crosshair.tracers import NoTracing
from lib import templates as T
from lib import projects as PJ
from pydoctor import model

D = T.DIMS


def check_reexport(kw, order, accel=False, via=False, hide_impl=False):
    via = via and kw["reexp"] in ("pkg_plain", "pkg_star", "pkg_renamed")
    sources, exporter, newname = T.gen(accel=accel, via=via, **kw)
    if exporter is None:
        return True
    sample(shape=kw, order=order, sources={k: v[0] for k, v in sources.items()})
    opts = None
    if hide_impl:
        # the usual way to keep an implementation module out of the documentation while publishing its content through __all__
        import copy as _copy
        from pydoctor import model as _model
        opts = _copy.copy(PJ.OPTS)
        opts.privacy = [(_model.PrivacyClass.HIDDEN, "pkg._impl")]
    try:
        s = PJ.build(sources, opts=opts, schedule=T.scheduler(order))
    except Exception as e:
        note(why="analysis raised", shape=kw, order=order, exc=repr(e))
        return False
    imported = not (kw["reexp"] == "pkg_star" and kw["origin_all"] == "without")
    moved = imported and kw["origin_all"] != "with"
    if via:
        # the module the package imports from is the facade pkg._api, which has no __all__: the name is imported and moved
        imported = moved = True
    if not imported:
        return True
    new, old = f"{exporter}.{newname}", "pkg._impl.X"
    ctx = dict(shape=kw, order=order, accelerator_import_in_defining_module=accel, through_an_intermediate_module=via, defining_module_hidden=hide_impl)
    if not moved:
        if old not in s.allobjects:
            note(why="object listed in its defining module's __all__ was moved away", **ctx)
            return False
        return True
    X = s.allobjects.get(new)
    if X is None:
        note(why="re-exported object not documented under the exporting module and exported name", **ctx)
        return False
    if kw["local_def"] == "after":
        # a later local definition of the exported name supersedes the import, as in Python
        return True
    if s.allobjects[exporter].contents.get(newname) is not X or X.parent is not s.allobjects[exporter]:
        note(why="re-exported object is registered but is not a member of the exporting module (documented zero times)", **ctx)
        return False
    if old in s.allobjects or any(k.startswith(old + ".") for k in s.allobjects):
        note(why="object (or a member) still documented under the defining module", keys=[k for k in s.allobjects if k.startswith(old)], **ctx)
        return False
    members = [k for k in s.allobjects if k.startswith(new + ".")]
    want_members = {"class": 2 + (2 if kw["nested"] else 0), "func": 0}[kw["xkind"]]
    if len(members) != want_members:
        note(why="members of the moved object not documented exactly once under the new name", members=members, **ctx)
        return False
    if "X" in s.allobjects["pkg._impl"].contents:
        note(why="defining module still lists the object", **ctx)
        return False
    try:
        a, b = s.find_object(old), s.find_object(new)
    except LookupError as e:
        note(why="find_object raises for the old or new qualified name", exc=repr(e), **ctx)
        return False
    if a is not X or b is not X:
        note(why="find_object(old) / find_object(new) do not lead to the one documented object", **ctx)
        return False
    if s.allobjects["pkg._impl"].resolveName("X") is not X:
        note(why="the defining module no longer resolves the old name", **ctx)
        return False
    if X.url.split("#")[0] not in (f"{exporter}.html", f"{new}.html", "index.html"):
        note(why="url is not on the exporter's page", url=X.url, **ctx)
        return False
    if kw["consumer"] != "none":
        u = s.allobjects["pkg.user"]
        r = u.resolveName("B")
        from_defining = kw["consumer"] in ("old", "modalias")
        if kw["consumer"] == "old" and kw["xkind"] == "class" and order.index("pkg.user") < order.index(exporter):
            # the consumer was analysed before the move: its base was bound to the object itself and must still be
            # (the recorded finding concerns names resolved AFTER the move only)
            U = s.allobjects["pkg.user.U"]
            if U.baseobjects != [X]:
                note(why="base class bound before the move no longer leads to the documented object", got=[b_ and b_.fullName() for b_ in U.baseobjects], **ctx)
                return False
        if r is not X:
            key = "C07:consumer-naming-the-defining-module-after-a-move-does-not-resolve"
            if from_defining and r is None and known(key):
                return True
            note(why="consumer's name does not lead to the documented object", consumer=kw["consumer"], got=r and r.fullName(), key=key if from_defining else None, **ctx)
            return False
        if kw["xkind"] == "class":
            U = s.allobjects["pkg.user.U"]
            if U.baseobjects != [X]:
                note(why="consumer's base class is not the documented object", got=[b_ and b_.fullName() for b_ in U.baseobjects], **ctx)
                return False
        if kw["consumer"] == "both" and u.resolveName("B0") is not X:
            key = "C07:consumer-naming-the-defining-module-after-a-move-does-not-resolve"
            if u.resolveName("B0") is None and known(key):
                return True
            note(why="consumer's import from the defining module does not lead to the documented object", key=key, **ctx)
            return False
    return True


def _parts():
    return [[r, c, l] for r in range(1, len(D["reexp"])) for c in range(len(D["consumer"])) for l in range(3)]


NSCHED = 6      # <= 3 sub-modules -> <= 6 schedules


@harness(
    parts=_parts, timeout=(240, 1800), cls="E", tracing="concrete-after-choice", twin="first",
    code=["pydoctor.astbuilder.ModuleVistor._handleReExport/_getCurrentModuleExports/_importNames/_importAll", "pydoctor.astbuilder.parseAll", "pydoctor.model.Documentable.reparent",
          "pydoctor.model.System.find_object", "pydoctor.model.Documentable.expandName/resolveName", "pydoctor.model.System.process (every schedule)"],
    bounds={"quick": "re-export form (package plain / renamed / star - each also through an intermediate facade module that imported the name -, sibling plain) x consumer form (none, from defining module, from exporter, both, module alias) x local definition (none/before/after) x kind x nested x origin __all__ (absent / without X / with X) x the defining module also importing the name (try: from _speedups import X) or not x the defining module hidden by a --privacy rule or not x every reachable schedule (<= 6)",
            "thorough": "same"},
    outside="two re-exporters of one object, cyclic shapes, duplicate definitions (C02)",
)
def h_reexport(xkind: int, nested: bool, origin_all: int, si: int, accel: bool, via: bool, hide: bool) -> bool:
    """
    pre: 0 <= xkind <= 1 and 0 <= origin_all <= 2 and 0 <= si < NSCHED
    post: _
    """
    ri, ci, li = PART if PART is not None else [1, 1, 0]
    kw = dict(xkind=D["xkind"][pick(xkind, 0, 1)], dup="none", nested=pickb(nested), reexp=D["reexp"][ri],
              origin_all=D["origin_all"][pick(origin_all, 0, 2)], local_def=D["local_def"][li], consumer=D["consumer"][ci], cycle=False)
    si = pick(si, 0, NSCHED - 1)
    accel = pickb(accel)
    hide = pickb(hide) and not accel      # (kept apart from the accelerator variant to bound the product)
    via = pickb(via) and kw["reexp"] in ("pkg_plain", "pkg_star", "pkg_renamed")
    with NoTracing():
        sources, _e, _n = T.gen(via=via, **kw)
        scheds = T.schedules(sources)
        if si >= len(scheds):
            return True
        ok = check_reexport(kw, scheds[si], accel, via, hide)
    return done(ok)
