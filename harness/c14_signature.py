"""C14 - a displayed signature is the signature that was written.

K14a (S) the default-alignment kernel (`get_default` + `default_offset`, nested in ModuleVistor._handleFunctionDef) extracted
         from the current source and run on unbounded symbolic ints.
K14b (E) the whole path source -> _handleFunctionDef -> Signature -> pages.format_signature -> text, re-parsed by Python and
         compared with the source's own ast.arguments and with inspect.signature of the function CPython builds.
"""
import ast
import inspect
import textwrap

from lib.hx import harness, pick, pickb, done, tier, PART, note, sample

PROPERTY = "C14"
LEVEL = "model_checking"
ASSUMPTIONS = [
    "CPython's parser and inspect.signature define what the written signature is",
    "defaults are constants of every literal type (int, bool, float, None, str, bytes, negative number), names and a few expressions (same-precedence right operands, containers, calls), annotations are names, subscripts and string annotations (expressions are C15's subject)",
    "K14a extracts the nested function by name from the current source; if it is no longer there the harness reports SKIPPED and K14b alone decides",
]

from pydoctor import astbuilder, model
from pydoctor.options import Options
from pydoctor.templatewriter.pages import format_signature, format_overloads
from pydoctor.stanutils import flatten_text
from crosshair.tracers import NoTracing

OPTS = Options.defaults()
OPTS.verbosity = -3


# ------------------------------------------------------------------ K14a kernel extraction
def _extract_kernel():
    src = inspect.getsource(astbuilder)
    tree = ast.parse(src)
    for cls in tree.body:
        if isinstance(cls, ast.ClassDef):
            for fn in cls.body:
                if isinstance(fn, ast.FunctionDef) and fn.name == "_handleFunctionDef":
                    inner = [n for n in ast.walk(fn) if isinstance(n, ast.FunctionDef) and n.name == "get_default"]
                    assigns = [n for n in fn.body if isinstance(n, ast.Assign) and len(n.targets) == 1
                               and isinstance(n.targets[0], ast.Name) and n.targets[0].id == "default_offset"]
                    if not inner:
                        return None
                    inner[0].returns = None            # annotations are not part of the arithmetic
                    for a in inner[0].args.args:
                        a.annotation = None
                    body = assigns + [inner[0], ast.Return(value=ast.Name(id="get_default", ctx=ast.Load()))]
                    wrapper = ast.FunctionDef(
                        name="kernel", args=ast.arguments(posonlyargs=[], args=[ast.arg(arg="num_pos_args"), ast.arg(arg="defaults")],
                                                          kwonlyargs=[], kw_defaults=[], defaults=[]),
                        body=body, decorator_list=[], returns=None, type_params=[])
                    mod = ast.fix_missing_locations(ast.Module(body=[wrapper], type_ignores=[]))
                    ns = {"Optional": object, "ast": ast}
                    try:
                        exec(compile(mod, "<kernel extracted from astbuilder._handleFunctionDef>", "exec"), ns)
                    except Exception:
                        return None
                    return ns["kernel"]
    return None


KERNEL = _extract_kernel()


class _Defaults:
    """A sequence of symbolic length whose i-th element is ('D', i)."""

    def __init__(self, n):
        self.n = n

    def __len__(self):
        return self.n

    def __getitem__(self, i):
        if i < 0:
            i += self.n
        if not (0 <= i < self.n):
            raise IndexError(i)
        return ("D", i)


@harness(
    timeout=(120, 600), cls="S", tracing="symbolic-through-pydoctor", twin="first",
    code=["get_default / default_offset, nested in pydoctor.astbuilder.ModuleVistor._handleFunctionDef (AST-extracted, compiled standalone)"],
    bounds={"quick": "num_pos_args, number of defaults, index: unbounded ints with 0 <= n_defaults <= num_pos_args, 0 <= index < num_pos_args", "thorough": "same"},
)
def h_default_alignment(num_pos_args: int, n_defaults: int, index: int) -> bool:
    """
    pre: 0 <= n_defaults <= num_pos_args and 0 <= index < num_pos_args
    post: _
    """
    if KERNEL is None:
        return done(True)       # SKIPPED: kernel not found (reported through KERNEL_FOUND in the evidence)
    try:
        get_default = KERNEL(num_pos_args, _Defaults(n_defaults))
        got = get_default(index)
    except NameError:
        return done(True)       # kernel grew a dependency this extraction does not know: K14b decides
    # Python aligns defaults with the LAST n_defaults positional parameters
    first_with_default = num_pos_args - n_defaults
    want = None if index < first_with_default else ("D", index - first_with_default)
    return done(got == want)


# ------------------------------------------------------------------ K14b full path
MAXP = tier(2, 3)          # max positional-only, positional
MAXK = 2                   # max keyword-only
FULL = tier(False, True)
ANN = ["", ": int", ": 'List[int]'", ": \"Foo\"", ": None", ": 'None'", ": List[None]", ": List['Foo']", ": Annotated['Foo', 'meta']", ": Literal['Foo']", ": ('Foo | int') * 2"]
NANN = len(ANN) - 1
# string defaults with every character _str_escape / _bytes_escape rewrites (NUL, backslash, quote, tab, newline): they must read back as the same value
DEFAULTS = ["100", "True", "'a\\x00b\\\\c'", "'it\\'s\\t\\n'", "1.0", "None", "b'\\x00\\\\'", "'s'", "0.0", "False", "-1", "1", "0", "b'1'", "''", "2*(7//2)", "1+(8-3)", "(1, 2)", "[1, {'a': ()}]", "x.y[0](z)", "10-(4-3)"]
RET = ["", " -> None", " -> int", " -> 'Foo'", " -> \"None\""]


def mk_source(npo, na, nd, va, nk, kmask, kw, annsel, ret, dname):
    names = iter("abcdefghij")
    i = [0]
    shift = ret + nd        # which annotation form a parameter gets varies with the layout (all 6 forms occur at every position)

    def ann(n):
        k = i[0]
        i[0] += 1
        a = ""
        if annsel == 1:
            a = ANN[1 + (k + shift) % NANN]
        elif annsel == 2 and k % 2 == 0:
            a = ANN[1 + (k // 2 + shift) % NANN]
        return n + a

    allpos = [ann(next(names)) for _ in range(npo + na)]
    for j in range(len(allpos)):
        if j >= len(allpos) - nd:
            val = "DEFAULT" if (dname and j % 2 == 0) else DEFAULTS[(j + shift) % len(DEFAULTS)]
            allpos[j] += (" = " if ":" in allpos[j] else "=") + val
    parts = allpos[:npo]
    if npo:
        parts.append("/")
    parts += allpos[npo:]
    if va:
        parts.append(ann("*va"))
    elif nk:
        parts.append("*")
    for j in range(nk):
        p = ann(next(names))
        if (kmask >> j) & 1:
            p += (" = " if ":" in p else "=") + DEFAULTS[(j + shift + 3) % len(DEFAULTS)]
        parts.append(p)
    if kw:
        parts.append(ann("**kw"))
    return "(%s)%s" % (", ".join(parts), RET[ret])


def layout(a):
    def one(x):
        return (x.arg, None if x.annotation is None else ast.dump(x.annotation))
    return ([one(x) for x in a.posonlyargs], [one(x) for x in a.args], a.vararg and one(a.vararg), [one(x) for x in a.kwonlyargs],
            [None if d is None else ast.dump(d) for d in a.kw_defaults], a.kwarg and one(a.kwarg), [ast.dump(d) for d in a.defaults])


class _Unstring(ast.NodeTransformer):
    """forward references written as strings are shown unquoted, at any depth - except the arguments of Literal[...] (values,
    not types) and the metadata of Annotated[...] (only its first argument is a type)"""

    def visit_Constant(self, node):
        if isinstance(node.value, str):
            return self.visit(ast.parse(node.value, mode="eval").body)
        return node

    def visit_Subscript(self, node):
        head = node.value.id if isinstance(node.value, ast.Name) else getattr(node.value, "attr", None)
        if head == "Literal":
            return node
        if head == "Annotated" and isinstance(node.slice, ast.Tuple) and node.slice.elts:
            node.slice.elts[0] = self.visit(node.slice.elts[0])
            return node
        return self.generic_visit(node)


def _unstring(node):
    return _Unstring().visit(node)


def unquote_annotations(fdef):
    """what the documentation is expected to show: string annotations unquoted, `-> None` omitted"""
    for arg in ast.walk(fdef.args):
        if isinstance(arg, ast.arg) and arg.annotation is not None:
            arg.annotation = _unstring(arg.annotation)
    r = fdef.returns
    if r is not None:
        r = _unstring(r)
    if isinstance(r, ast.Constant) and r.value is None:
        r = None
    fdef.returns = r
    return fdef


def check_signature(sigtext, overload):
    header = "from typing import List, overload, Annotated, Literal\nDEFAULT = 7\nclass Foo: pass\n"
    if overload:
        # two overloads with their own signatures, then the implementation; the decorator is spelled in one of four ways
        # (bare name, imported under an alias, through the module, through a module alias) chosen by the signature's length
        spell = ["overload", "_ov", "typing.overload", "t.overload"][len(sigtext) % 4]
        header += "from typing import overload as _ov\nimport typing\nimport typing as t\n"
        src = header + "@%s\ndef f%s: ...\n@%s\ndef f(zz: int, /) -> int: ...\ndef f(*args, **kwargs): pass\n" % (spell, sigtext, spell)
    else:
        src = header + "def f%s: pass\n" % sigtext
    sample(source=src)
    s = model.System(OPTS)
    s.msg = lambda *a, **k: None
    b = s.systemBuilder(s)
    b.addModuleString(src, "m")
    b.buildModules()
    f = s.allobjects["m.f"]
    if overload:
        if len(f.overloads) != 2:
            note(why="overloads not recorded separately", src=src, n=len(f.overloads))
            return False
        targets = [(f.overloads[0], sigtext), (f.overloads[1], "(zz: int, /) -> int"), (f, "(*args, **kwargs)")]
    else:
        targets = [(f, sigtext)]
    for func, written in targets:
        text = flatten_text(format_signature(func))
        want_def = unquote_annotations(ast.parse("def f%s: pass" % written).body[0])
        try:
            back = ast.parse("def f%s: pass" % text).body[0]
        except SyntaxError as e:
            note(why="displayed signature does not read back as Python", src=src, text=text)
            return False
        if layout(back.args) != layout(want_def.args):
            note(why="parameters differ", src=src, shown=text, got=layout(back.args), want=layout(want_def.args))
            return False
        if (back.returns and ast.dump(back.returns)) != (want_def.returns and ast.dump(want_def.returns)):
            note(why="return annotation differs", src=src, shown=text)
            return False
        # kinds/order/defaults as CPython's inspect sees the same definition
        ns = {}
        exec(compile(header + "def g%s: pass\n" % written, "<sig>", "exec"), ns)
        want = inspect.signature(ns["g"])
        got = func.signature
        if [(p.name, p.kind) for p in got.parameters.values()] != [(p.name, p.kind) for p in want.parameters.values()]:
            note(why="Signature kinds/order differ from inspect.signature", src=src)
            return False
        for g, w in zip(got.parameters.values(), want.parameters.values()):
            if (g.default is inspect.Parameter.empty) != (w.default is inspect.Parameter.empty):
                note(why="default presence differs from inspect.signature", src=src, param=w.name)
                return False
    return True


def _parts_sig():
    return [[npo, na, ov, nd] for npo in range(MAXP + 1) for na in range(MAXP + 1) for ov in (0, 1) for nd in range(npo + na + 1)]


@harness(
    parts=_parts_sig, timeout=(240, 2400), cls="E", tracing="concrete-after-choice", twin="first",
    code=["pydoctor.astbuilder.ModuleVistor._handleFunctionDef", "._annotations_from_function", "pydoctor.astutils.unstring_annotation",
          "pydoctor.astbuilder._ValueFormatter/_AnnotationValueFormatter", "pydoctor.templatewriter.pages.format_signature", "inspect.Signature.__str__"],
    bounds={"quick": "<=2 positional-only, <=2 positional, every count of defaults, *args or not, <=2 keyword-only with every default mask, **kwargs or not, 3 annotation placements (none / all / alternate; forms: name, quoted subscript, double-quoted name, None, quoted None, subscript with None, quoted name inside a subscript, Annotated with a quoted type and string metadata, Literal with a string, a quoted union as operand of a tighter-binding operator), 5 return forms, name or constant defaults (chosen by the layout; the constants include strings and bytes with NUL, backslash, quote, tab and newline), plain function, and overload set with all parameters annotated (decorator spelled overload / an alias of it / typing.overload / t.overload)",
            "thorough": "<=3 positional-only and <=3 positional, full product incl. name/constant defaults and overload sets for every annotation placement"},
    outside="default/annotation expressions beyond constants, names and one subscript (C15); signatures from introspection of C modules",
)
def h_signature_layout(va: bool, nk: int, kmask: int, kw: bool, annsel: int, ret: int, dname: bool) -> bool:
    """
    pre: 0 <= nk <= MAXK and 0 <= kmask <= 3 and 0 <= annsel <= 2 and 0 <= ret <= 4
    pre: (nk >= 2 or kmask <= 1) and (nk >= 1 or kmask == 0)
    pre: FULL or not dname
    pre: FULL or (PART is None) or PART[2] == 0 or annsel == 1
    post: _
    """
    npo, na, ov, nd = PART if PART is not None else [1, 1, 0, 1]
    va, kw, dname = pickb(va), pickb(kw), pickb(dname)
    nk = pick(nk, 0, MAXK)
    kmask = pick(kmask, 0, 3)
    annsel = pick(annsel, 0, 2)
    ret = pick(ret, 0, 4)
    if not FULL:
        dname = (nd + ret + nk) % 2 == 1      # quick: name-or-constant default chosen by the layout
    if dname and nd == 0:
        dname = False
    with NoTracing():
        sigtext = mk_source(npo, na, nd, va, nk, kmask, kw, annsel, ret, dname)
        ok = check_signature(sigtext, ov)
    return done(ok)
