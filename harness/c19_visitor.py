"""C19 - visitor extensions see a balanced, ordered walk whatever the main visitor prunes.

K19a (F) visitor.Visitor.walk / walkabout with the main visitor's pruning decisions as symbolic variables, read lazily
         inside visit_*/depart_* (so CrossHair forks exactly where the real walk consults them), for every tree of <=3 (4)
         nodes and every set of extension timings; the recorded event trace is judged by an executable reading of the
         documented contract.
K19b (E) the real ModuleVistor on generated module shapes: builder stack empty, current/currentMod reset.
"""
from lib.hx import harness, pick, pickb, done, tier, PART, note, known, THOROUGH

PROPERTY = "C19"
LEVEL = "model_checking"
ASSUMPTIONS = [
    "the documented contract is the docstrings of visitor.Visitor.SkipChildren/SkipSiblings/SkipNode/SkipDeparture, When.* and VisitorExt",
    "pruning exceptions are raised by the main visitor only (extensions that prune are outside the claim)",
    "trees are rooted ordered trees of <= 4 nodes of one node class",
]

from pydoctor import visitor as V
from crosshair.tracers import NoTracing


class Node:
    def __init__(self, idx, children):
        self.idx = idx
        self.children = children


def _trees(n):
    """all rooted ordered trees with n nodes, as nested tuples of children"""
    if n == 1:
        return [()]
    out = []
    # forests with n-1 nodes
    def forests(k):
        if k == 0:
            return [()]
        res = []
        for first in range(1, k + 1):
            for t in _trees(first):
                for rest in forests(k - first):
                    res.append((t,) + rest)
        return res
    return forests(n - 1)


SHAPES = [t for n in (1, 2, 3, 4) for t in _trees(n)]     # 1 + 1 + 2 + 5 = 9
NSHAPES = tier(4, 9)


def build(shape):
    counter = [0]
    parent = {}
    def mk(t, par):
        idx = counter[0]
        counter[0] += 1
        parent[idx] = par
        node = Node(idx, [])
        node.children = [mk(c, idx) for c in t]
        return node
    root = mk(shape, None)
    return root, parent, counter[0]


WHENS = [V.When.BEFORE, V.When.OUTTER, V.When.AFTER, V.When.INNER]
WHO = {V.When.BEFORE: "B", V.When.OUTTER: "O", V.When.AFTER: "A", V.When.INNER: "I"}
ENTRY_ORDER = ["B", "O", "M", "A", "I"]
EXIT_ORDER = ["B", "I", "M", "A", "O"]
NONE, SKIP_CHILDREN, SKIP_SIBLINGS, SKIP_NODE, SKIP_DEPARTURE = range(5)


def make_visitors(trace, vis_act, dep_act, timing_bits):
    exts = []
    for i, when in enumerate(WHENS):
        if (timing_bits >> i) & 1:
            tag = WHO[when]

            class Ext(V.VisitorExt):
                pass
            Ext.when = when
            Ext.visit_Node = (lambda tag: lambda self, ob: trace.append((tag, "v", ob.idx)))(tag)
            Ext.depart_Node = (lambda tag: lambda self, ob: trace.append((tag, "d", ob.idx)))(tag)
            exts.append(Ext)

    class Main(V.Visitor):
        @classmethod
        def get_children(cls, ob):
            return ob.children

        def visit_Node(self, ob):
            trace.append(("M", "v", ob.idx))
            a = vis_act(ob.idx)
            if a == SKIP_CHILDREN:
                raise self.SkipChildren()
            if a == SKIP_SIBLINGS:
                raise self.SkipSiblings()
            if a == SKIP_NODE:
                raise self.SkipNode()
            if a == SKIP_DEPARTURE:
                raise self.SkipDeparture()

        def depart_Node(self, ob):
            trace.append(("M", "d", ob.idx))
            if dep_act(ob.idx):
                raise self.SkipSiblings()

    return Main(V.ExtList(*exts))


def reference(root, acts, deps, walkabout):
    """Documented semantics: which nodes the main visitor enters / leaves, in order.
    -> list of ('v'|'d', idx, main_departs) events for the main visitor."""
    out = []

    def go(node):
        """returns True when the siblings to the right must be skipped"""
        a = acts[node.idx]
        out.append(("v", node.idx))
        skip_sib = a == SKIP_SIBLINGS
        if a not in (SKIP_CHILDREN, SKIP_NODE):
            for c in node.children:
                if go(c):
                    break
        if walkabout:
            if a not in (SKIP_NODE, SKIP_DEPARTURE):
                out.append(("d", node.idx))
                if deps[node.idx]:
                    skip_sib = True
            else:
                out.append(("x", node.idx))      # extensions-only departure
        return skip_sib

    go(root)
    return out


def judge(trace, root, parent, n, acts, deps, walkabout, present, escaped):
    if escaped is not None:
        return "exception escapes the walk: %s" % escaped
    ref = reference(root, acts, deps, walkabout)
    main = [(k, i) for (w, k, i) in trace if w == "M"]
    want_main = [(k, i) for (k, i) in ref if k != "x"]
    if main != want_main:
        return "main visitor trace %r, documented %r" % (main, want_main)
    entered = [i for (k, i) in ref if k == "v"]
    # every participant: each node entered at most once, only nodes the main visitor enters
    for who in present + ["M"]:
        vs = [i for (w, k, i) in trace if w == who and k == "v"]
        if len(set(vs)) != len(vs):
            return "%s enters a node twice: %r" % (who, vs)
        if who != "M" and vs != entered:
            return "extension %s enters %r, main visitor enters %r" % (who, vs, entered)
    # per node entry order (contiguous group)
    i = 0
    pos = {}
    for j, ev in enumerate(trace):
        pos.setdefault((ev[1], ev[2]), []).append((j, ev[0]))
    for node in entered:
        grp = pos.get(("v", node), [])
        idxs = [j for j, _ in grp]
        if idxs != list(range(idxs[0], idxs[0] + len(idxs))):
            return "entry events of node %d are not contiguous: %r" % (node, trace)
        got = [w for _, w in grp]
        want = [w for w in ENTRY_ORDER if w == "M" or w in present]
        if got != want:
            return "entry order at node %d is %r, documented %r" % (node, got, want)
    if not walkabout:
        if any(k == "d" for (_, k, _) in trace):
            return "walk() departed a node"
        return None
    # walkabout: every extension leaves what it entered, nested like the tree
    for who in present:
        stack = []
        for (w, k, node) in trace:
            if w != who:
                continue
            if k == "v":
                if stack and parent[node] != stack[-1]:
                    return "%s enters %d inside %d which is not its parent" % (who, node, stack[-1])
                if not stack and parent[node] is not None and node != root.idx:
                    return "%s enters %d outside its parent" % (who, node)
                stack.append(node)
            else:
                if not stack or stack[-1] != node:
                    return "%s leaves %d but is inside %r" % (who, node, stack)
                stack.pop()
        if stack:
            return "%s entered %r and never left" % (who, stack)
    # exit order per node
    main_departs = {i for (k, i) in ref if k == "d"}
    for node in entered:
        grp = pos.get(("d", node), [])
        if not grp:
            if present or node in main_departs:
                return "node %d is never left" % node
            continue
        idxs = [j for j, _ in grp]
        if idxs != list(range(idxs[0], idxs[0] + len(idxs))):
            return "exit events of node %d are not contiguous" % node
        got = [w for _, w in grp]
        want = [w for w in EXIT_ORDER if (w == "M" and node in main_departs) or w in present]
        if got != want:
            return "exit order at node %d is %r, documented %r" % (node, got, want)
    return None


def _parts_walk():
    parts = [[s, t] for s in range(NSHAPES) for t in range(16)]
    if NSHAPES < 9:
        # quick: the five 4-node trees with all four extension timings, visit actions only
        parts += [[s, 15] for s in range(NSHAPES, 9)]
    return parts


@harness(
    parts=_parts_walk, timeout=(240, 2400), cls="F", tracing="symbolic-through-pydoctor", twin="first",
    code=["pydoctor.visitor.Visitor.walk", "pydoctor.visitor.Visitor.walkabout", "pydoctor.visitor.Visitor.visit", "pydoctor.visitor.Visitor.depart",
          "pydoctor.visitor.ExtList", "pydoctor.visitor.VisitorExt", "pydoctor.visitor._BaseVisitor.visit/depart"],
    bounds={"quick": "every rooted ordered tree of <= 3 nodes (4 shapes) x every set of extension timings (16) x per node: visit action in {none, SkipChildren, SkipSiblings, SkipNode, SkipDeparture} and depart action in {none, SkipSiblings} x walk/walkabout; plus the five 4-node trees with all four timings and visit actions only",
            "thorough": "trees of <= 4 nodes (9 shapes), same dimensions"},
    outside="extensions that raise pruning exceptions themselves; more than one extension per timing; trees of more than 4 nodes",
)
def h_walk(a0: int, a1: int, a2: int, a3: int, d0: bool, d1: bool, d2: bool, d3: bool, walkabout: bool) -> bool:
    """
    pre: 0 <= a0 <= 4 and 0 <= a1 <= 4 and 0 <= a2 <= 4 and 0 <= a3 <= 4
    pre: NSHAPES == 9 or PART is None or PART[0] < NSHAPES or not (d0 or d1 or d2 or d3)
    post: _
    """
    si, timing = PART if PART is not None else [2, 15]
    root, parent, n = build(SHAPES[si])
    sym_a = [a0, a1, a2, a3]
    sym_d = [d0, d1, d2, d3]
    acts = [NONE] * 4      # concretised lazily, exactly when the walk consults them
    deps = [False] * 4
    trace = []

    def vis_act(i):
        acts[i] = pick(sym_a[i], 0, 4)
        return acts[i]

    def dep_act(i):
        deps[i] = pickb(sym_d[i])
        return deps[i]

    walkabout = pickb(walkabout)
    main = make_visitors(trace, vis_act, dep_act, timing)
    escaped = None
    try:
        if walkabout:
            main.walkabout(root)
        else:
            main.walk(root)
    except Exception as e:
        escaped = "%s" % type(e).__name__
    present = [WHO[w] for i, w in enumerate(WHENS) if (timing >> i) & 1]
    with NoTracing():
        why = judge(trace, root, parent, n, acts, deps, walkabout, present, escaped)
    if why is not None:
        note(why=why, shape=repr(SHAPES[si]), acts=acts[:n], deps=deps[:n], walkabout=walkabout, present=present, trace=trace)
    return done(why is None)


# ------------------------------------------------------------------ K19b the real builder
from pydoctor import model
from pydoctor.options import Options

OPTS = Options.defaults()
OPTS.verbosity = -3

STMTS = [
    "x = 1\n",
    "def f(a, b=1):\n    '''doc'''\n    def inner():\n        pass\n    return inner\n",
    "class K:\n    '''doc'''\n    y: int = 2\n    def m(self):\n        class Local:\n            pass\n",
    "class P:\n    @property\n    def p(self):\n        '''prop'''\n    @p.setter\n    def p(self, v):\n        pass\n",
    "from typing import overload\n@overload\ndef o(a: int) -> int: ...\n@overload\ndef o(a: str) -> str: ...\ndef o(a):\n    return a\n",
    "if __name__ == '__main__':\n    def hidden():\n        pass\n    class Hidden:\n        pass\n",
    "class Outer:\n    class Inner:\n        class Innermost:\n            def deep(self):\n                '''deep'''\n",
    "try:\n    import json\nexcept ImportError:\n    json = None\nelse:\n    def g():\n        pass\n",
    "async def co():\n    async with x as y:\n        pass\n",
    "for i in range(3):\n    def loopf():\n        pass\n",
    "class E(Exception):\n    def __init__(self):\n        self.attr = 1\n        '''attr doc'''\n",
    "import os.path as osp\nfrom os import *\n__all__ = ['x']\n__docformat__ = 'epytext'\n",
    "lam = lambda: (yield)\nwith open('f') as fh:\n    z = 1\n",
]
NST = len(STMTS)


def check_builder(i, j, k, nested):
    import ast
    parts = [STMTS[i], STMTS[j], STMTS[k]]
    if nested:
        # second statement nested in a class body, third in an `if` body
        src = parts[0] + "class Wrap:\n" + "".join("    " + ln + "\n" for ln in parts[1].splitlines()) + "if True:\n" + "".join("    " + ln + "\n" for ln in parts[2].splitlines())
    else:
        src = "".join(parts)
    s = model.System(OPTS)
    s.msg = lambda *a, **kw: None
    mod = model.Module(s, "m")
    mod._py_string = src
    s.addObject(mod)
    mod.state = model.ProcessingState.PROCESSING
    b = s.defaultBuilder(s)
    tree = ast.parse(src)
    try:
        b.processModuleAST(tree, mod)
    except Exception as e:
        note(why="builder raised", src=src, exc=repr(e))
        return False
    if b._stack != [] or b.current is not None or b.currentMod is not None:
        note(why="builder scope stack not reset", src=src, stack=repr(b._stack), current=repr(b.current), currentMod=repr(b.currentMod))
        return False
    return True


@harness(
    parts=lambda: list(range(NST)), timeout=(200, 900), cls="E", tracing="concrete-after-choice", twin="first",
    code=["pydoctor.astbuilder.ASTBuilder.processModuleAST/push/pop/_push/_pop/pushClass/popClass/pushFunction/popFunction",
          "pydoctor.astbuilder.ModuleVistor.visit_*/depart_*", "pydoctor.astutils.NodeVisitor", "pydoctor.visitor.Visitor.walkabout"],
    bounds={"quick": "modules of 3 statements drawn from 13 statement templates (functions with nested defs, classes with nested classes/functions, property, overloads, __main__ block, try/else, async, loops, exceptions, imports/__all__), flat or nested in a class / if body (13^3 x 2 = 4394 modules)",
            "thorough": "same space"},
    outside="statement templates not in the table; syntax errors (never reach the builder)",
)
def h_builder_stack(j: int, k: int, nested: bool) -> bool:
    """
    pre: 0 <= j < NST and 0 <= k < NST
    post: _
    """
    i = PART if PART is not None else 0
    j = pick(j, 0, NST - 1)
    k = pick(k, 0, NST - 1)
    nested = pickb(nested)
    with NoTracing():
        ok = check_builder(i, j, k, nested)
    return done(ok)
