"""C06 - the result does not depend on the order in which modules are analysed.

Class E with the SCHEDULE as the variable of interest: for every project shape of the template space, every reachable
processing order (the package's own module first, then its sub-modules in any order) is applied by reordering
System.unprocessed_modules before process(); the canonical dump of the model must equal the dump under the default order.
"""
from lib.hx import harness, pick, pickb, done, tier, PART, note, known, sample

PROPERTY = "C06"
LEVEL = "exploration"
ASSUMPTIONS = [
    "reachable orders = each package's own module first, then its sub-modules in any order (what sorted traversal / command-line order can produce)",
    "shapes with an import cycle are compared on the class hierarchy only (as the statement allows); objects re-exported by two modules are excluded by the statement",
    "the schedule is imposed by permuting System.unprocessed_modules (a plain list) before process()",
]

from crosshair.tracers import NoTracing
from lib import templates as T
from lib import projects as PJ

D = T.DIMS
CONSUMERS = D["consumer"] + ["modattr", "modalias_root"]     # + `from pkg import _impl; B = _impl.X`, + module alias with a local name `pkg`


def hierarchy_by_site(s):
    """class hierarchy with classes identified by where they are defined (docstring tag), for cyclic shapes in which the
    move itself may or may not take place"""
    from pydoctor import model
    out = {}
    for o in s.allobjects.values():
        if isinstance(o, model.Class) and " " not in o.fullName():
            ident = (o.docstring or o.name).split("\n")[0]
            out[ident] = tuple(((b.docstring or b.name).split("\n")[0] if b is not None else None) for b in o.baseobjects)
    return out


def only_unresolved_differs(s0, s1):
    """the two models differ only in that some base is unresolved (None) in one and resolved in the other - never in WHICH object
    a name resolves to (that would be a different defect than the recorded one)"""
    from pydoctor import model
    for k in set(s0.allobjects) | set(s1.allobjects):
        a, b = s0.allobjects.get(k), s1.allobjects.get(k)
        if a is None or b is None or type(a).__name__ != type(b).__name__:
            return False
        if isinstance(a, model.Class):
            if len(a.baseobjects) != len(b.baseobjects):
                return False
            for x, y in zip(a.baseobjects, b.baseobjects):
                if x is not None and y is not None and x.fullName() != y.fullName():
                    return False
        elif (str(a.kind), a.docstring) != (str(b.kind), b.docstring):
            return False
    return True


def local_redefinition_only(d0, d1, exporter, newname):
    """the two dumps differ only in the consumer's classes, and only in that a base is the exporter's LOCAL definition in one and
    the moved object (renamed '<name> 0' when the local definition superseded it) in the other"""
    local, moved_name = "%s.%s" % (exporter, newname), "%s.%s 0" % (exporter, newname)
    for k in set(d0) | set(d1):
        a, b = d0.get(k), d1.get(k)
        if a == b:
            continue
        if a is None or b is None or not k.startswith("pkg.user."):
            return False
        norm = lambda rec: repr(rec).replace(moved_name, local)
        if norm(a) != norm(b):
            return False
    return True


def check_schedule(kw, si, shadow=False):
    sources, exporter, newname = T.gen(shadow=shadow, **kw)
    scheds = T.schedules(sources)
    if si >= len(scheds) or si == 0:
        return True
    sample(shape=kw, shadow=shadow, default_order=scheds[0], order=scheds[si], sources={k: v[0] for k, v in sources.items()})
    try:
        s0 = PJ.build(sources, schedule=T.scheduler(scheds[0]))
        s1 = PJ.build(sources, schedule=T.scheduler(scheds[si]))
    except Exception as e:
        note(why="analysis raised", shape=kw, order=scheds[si], exc=repr(e))
        return False
    if kw["cycle"] and kw["consumer"] != "none":
        d0, d1 = hierarchy_by_site(s0), hierarchy_by_site(s1)
    else:
        d0, d1 = T.dump(s0), T.dump(s1)
    if d0 == d1:
        return True
    diff = sorted(k for k in set(d0) | set(d1) if d0.get(k) != d1.get(k))
    moved = exporter is not None and not (kw["reexp"] == "pkg_star" and kw["origin_all"] == "without") and kw["origin_all"] != "with"
    if moved and kw["consumer"] in ("old", "both", "modalias", "modattr", "modalias_root") and only_unresolved_differs(s0, s1):
        key = "C06:consumer-naming-the-defining-module-of-a-moved-object-resolves-only-if-processed-first"
        if known(key):
            return True
        note(why="documented model depends on the processing order", key=key, shape=kw, order0=scheds[0], order=scheds[si], differing=diff[:6],
             base={k: d0.get(k) for k in diff[:3]}, other={k: d1.get(k) for k in diff[:3]})
        return False
    # (without a re-export the consumer forms 'new' and 'old' are the same text: from pkg._impl import X as B)
    if moved and kw["local_def"] == "after" and kw["consumer"] in ("old", "both", "modalias", "modattr", "modalias_root") and local_redefinition_only(d0, d1, exporter, newname):
        key = "C06:re-exported-name-redefined-locally-afterwards-consumer-naming-the-defining-module-gets-the-local-class-or-the-moved-one-depending-on-the-order"
        if known(key):
            return True
        note(why="documented model depends on the processing order", key=key, shape=kw, order0=scheds[0], order=scheds[si], differing=diff[:6],
             base={k: d0.get(k) for k in diff[:3]}, other={k: d1.get(k) for k in diff[:3]})
        return False
    if shadow and kw["cycle"] and (kw["consumer"] in ("modalias", "modattr", "modalias_root", "old", "both") or (exporter is None and kw["consumer"] == "new")):
        key = "C06:import-cycle-while-a-star-imported-name-is-not-yet-overridden-base-resolves-to-the-shadowed-object"
        if known(key):
            return True
        note(why="class hierarchy of a cyclic project depends on the processing order", key=key, shape=kw, order0=scheds[0], order=scheds[si], differing=diff[:6],
             base={k: d0.get(k) for k in diff[:3]}, other={k: d1.get(k) for k in diff[:3]})
        return False
    if kw["cycle"] and exporter == "pkg.api" and kw["consumer"] in ("new", "both"):
        key = "C06:import-cycle-through-a-sibling-exporter-move-and-consumer-base-depend-on-the-order"
        if known(key):
            return True
        note(why="class hierarchy of a cyclic project depends on the processing order", key=key, shape=kw, order0=scheds[0], order=scheds[si], differing=diff[:6],
             base={k: d0.get(k) for k in diff[:3]}, other={k: d1.get(k) for k in diff[:3]})
        return False
    note(why="documented model depends on the processing order", shape=kw, order0=scheds[0], order=scheds[si], differing=diff[:6],
         base={k: d0.get(k) for k in diff[:3]}, other={k: d1.get(k) for k in diff[:3]})
    return False


def _parts():
    return [[r, c, d] for r in range(len(D["reexp"])) for c in range(1, len(CONSUMERS)) for d in range(len(D["dup"]))]


@harness(
    parts=_parts, timeout=(240, 1800), cls="E", tracing="concrete-after-choice", twin="first",
    code=["pydoctor.model.System.process/processModule/getProcessedModule", "pydoctor.astbuilder.ModuleVistor._importNames/_importAll (on-demand processing)",
          "pydoctor.model.compute_mro (second pass)", "pydoctor.model.Documentable.reparent", "pydoctor.model.System.postProcess"],
    bounds={"quick": "template shapes with a consumer module (re-export form x consumer form x duplicate form x kind x nested x origin __all__ x cycle; local definition none) x every reachable schedule (<= 6 with a sibling exporter, 2 otherwise); plus, for the plain shapes, a defining module that first star-imports another X from pkg._base (<= 24 schedules)",
            "thorough": "adds local definition before/after"},
    outside="projects outside the template; real packages; more than 4 modules",
)
def h_schedule(xkind: int, nested: bool, origin_all: int, cycle: bool, local_def: int, si: int, shadow: bool) -> bool:
    """
    pre: 0 <= xkind <= 1 and 0 <= origin_all <= 2 and 0 <= si <= 23 and 0 <= local_def <= 2
    pre: FULL or local_def == 0
    pre: shadow or si <= 5
    pre: FULL or not shadow or (not nested and origin_all == 0)
    post: _
    """
    ri, ci, di = PART if PART is not None else [1, 1, 0]
    kw = dict(xkind=D["xkind"][pick(xkind, 0, 1)], dup=D["dup"][di], nested=pickb(nested), reexp=D["reexp"][ri],
              origin_all=D["origin_all"][pick(origin_all, 0, 2)], local_def=D["local_def"][pick(local_def, 0, 2)], consumer=CONSUMERS[ci], cycle=pickb(cycle))
    si = pick(si, 0, 23)
    shadow = pickb(shadow)
    if not T.valid(kw):
        return True
    with NoTracing():
        ok = check_schedule(kw, si, shadow)
    return done(ok)


FULL = tier(False, True)


# ------------------------------------------------------------------ K06b: a class chain across modules; what post-processing derives
CH_ATTR = ["absent", "classvar", "instvar", "classvar_doc", "instvar_doc", "property"]
NCA = len(CH_ATTR)
CH_IMPORT = ["plain", "from", "pkgattr", "aliased_submodule"]


def chain_sources(attrs, imps, docs):
    """pkg/{ma,mb,mc}: class A in ma, B(A) in mb, C(B) in mc; each class may define attribute v and method m"""
    def body(i, name):
        a = CH_ATTR[attrs[i]]
        out = "    '''%s'''\n" % name if (docs >> i) & 1 else ""
        if a == "classvar":
            out += "    v = %d\n" % i
        elif a == "classvar_doc":
            out += "    v = %d\n    '''v in %s'''\n" % (i, name)
        elif a == "instvar":
            out += "    def __init__(self):\n        self.v = %d\n" % i
        elif a == "instvar_doc":
            out += "    def __init__(self):\n        self.v = %d\n        '''v in %s'''\n" % (i, name)
        elif a == "property":
            out += "    @property\n    def v(self):\n        '''v in %s'''\n        return %d\n" % (name, i)
        out += "    def m(self):\n" + ("        '''m in %s'''\n" % name if (docs >> (3 + i)) & 1 else "        pass\n")
        return out

    def imp(form, mod, cls):
        if form == "plain":
            return "import pkg.%s\n" % mod, "pkg.%s.%s" % (mod, cls)
        if form == "from":
            return "from pkg.%s import %s\n" % (mod, cls), cls
        if form == "aliased_submodule":
            # the sub-module imported under an alias; besides the base, a module-level alias of a name that sub-module itself only
            # IMPORTED (Up = <the class above>, see below) is used as the base of a second class
            return "from pkg import %s as _m\n" % mod, "_m.%s" % cls
        return "from pkg import %s\n" % mod, "%s.%s" % (mod, cls)
    ia, ba = imp(CH_IMPORT[imps[0]], "ma", "A")
    ib, bb = imp(CH_IMPORT[imps[1]], "mb", "B")
    extra_c = ""
    if CH_IMPORT[imps[1]] == "aliased_submodule":
        extra_c = "Root = _m.Up\nclass C2(Root):\n    '''C2'''\n"
    return {
        "pkg": ("'''pkg'''\n", True),
        # (the root of the chain is an exception class in half of the cases, a zope interface in one sixth: the kinds EXCEPTION / INTERFACE of B and C are derived from their bases)
        "pkg.ma": (("from zope.interface import Interface\n" if attrs[2] == 1 else "") +
                   "class A%s:\n" % ("(Exception)" if attrs[2] % 2 == 0 else "(Interface)" if attrs[2] == 1 else "") + body(0, "A"), False),
        # mb also imports A under another name: a name mb does not define itself
        "pkg.mb": (ia + "from pkg.ma import A as Up\nclass B(%s):\n" % ba + body(1, "B"), False),
        "pkg.mc": (ib + "class C(%s):\n" % bb + body(2, "C") + extra_c, False),
    }


def chain_dump(s):
    d = T.dump(s)
    for k, o in s.allobjects.items():
        if isinstance(o, model.Inheritable):
            d[k] = d[k] + (tuple(x.fullName() for x in o.docsources()),)
    return d


def check_chain(attrs, imps, docs, si):
    sources = chain_sources(attrs, imps, docs)
    scheds = T.schedules(sources)
    if si == 0 or si >= len(scheds):
        return True
    sample(attributes=[CH_ATTR[a] for a in attrs], imports=[CH_IMPORT[i] for i in imps], default_order=scheds[0], order=scheds[si], sources={k: v[0] for k, v in sources.items()})
    base = chain_dump(PJ.build(sources))
    got = chain_dump(PJ.build(sources, schedule=T.scheduler(scheds[si])))
    if got != base:
        diff = {k: (base.get(k), got.get(k)) for k in set(base) | set(got) if base.get(k) != got.get(k)}
        note(why="what is documented depends on the order in which sibling modules are analysed", order=scheds[si], diff={k: repr(v)[:400] for k, v in list(diff.items())[:4]},
             attributes=[CH_ATTR[a] for a in attrs], imports=[CH_IMPORT[i] for i in imps], sources={k: v[0] for k, v in sources.items()})
        return False
    return True


from pydoctor import model  # noqa: E402


@harness(
    parts=lambda: [[a, b] for a in range(NCA) for b in range(NCA)], timeout=(240, 1200), cls="E", tracing="concrete-after-choice", twin="first",
    code=["pydoctor.model.defaultPostProcess", "_inherits_instance_variable_kind", "Inheritable.docsources", "Class._init_mro / compute_mro / init_finalbaseobjects", "pydoctor.astbuilder.ModuleVistor.visit_Import/visit_ImportFrom (on-demand processing)", "System.process / processModule"],
    bounds={"quick": "a three-class chain A <- B <- C over three sibling modules, A an exception class, a zope interface or a plain class; attribute v per class absent / class variable / instance variable / each with docstring / property (216 combinations); import form of each base plain / from / through the package / sub-module imported under an alias, with a module-level alias of a re-imported name as a second base (16); all 6 analysis orders; class and method docstrings present on a subset (quick: one fixed subset, thorough: 8 subsets)",
            "thorough": "same x 8 subsets of docstrings"},
    outside="chains longer than three; diamonds (C05 decides linearisations); several roots",
)
def h_chain_schedule(a2: int, i0: int, i1: int, docs: int, si: int) -> bool:
    """
    pre: 0 <= a2 < NCA and 0 <= i0 <= 3 and 0 <= i1 <= 3 and 0 <= docs < 64 and 1 <= si <= 5
    pre: (FULLC and docs % 9 == 0) or docs == 9
    post: _
    """
    a0, a1 = PART if PART is not None else [2, 1]
    a2 = pick(a2, 0, NCA - 1)
    i0, i1 = pick(i0, 0, 3), pick(i1, 0, 3)
    docs = pick(docs, 0, 63)
    si = pick(si, 1, 5)
    with NoTracing():
        ok = check_chain([a0, a1, a2], [i0, i1], docs, si)
    return done(ok)


FULLC = tier(False, True)
