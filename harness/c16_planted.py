"""C16 (second module) - K16f: problems planted at known physical lines.

Class E: the solver chooses docformat x problem kind x object kind x docstring layout x vertical offset x raw string; a module
with ONE problem planted at a known physical line is generated, analysed and rendered by the real parsers, and every warning
issued must name that line (epytext / reStructuredText: the first line of the paragraph or field containing the problem) or a
line inside the docstring (google / numpy), move by k when the definition moves by k, and be counted as a violation.
The docstring TEXT is concrete here (regex/docutils code does not run symbolically); what varies is the placement.
"""
import copy
import re

from lib.hx import harness, pick, pickb, done, tier, PART, note, known, sample

PROPERTY = "C16"
LEVEL = "model_checking"

from pydoctor import model, epydoc2stan
from crosshair.tracers import NoTracing
from lib import projects as PJ

PROBLEMS = {
 'epytext': {'xref': 'See L{nonexistent_name_x} for more.', 'field': '@foobar: an unknown field', 'param': '@param nope: no such parameter', 'markup': 'An B{unclosed bold.'},
 'restructuredtext': {'xref': 'See `nonexistent_name_x` for more.', 'field': ':foobar: an unknown field', 'param': ':param nope: no such parameter', 'markup': 'An **unclosed strong.',
                      # the field's text starts BELOW its marker line (directly, or after a blank line): the problem is the field's, at the marker
                      'param_below': ':param nope:\n    no such parameter', 'field_blank_below': ':foobar:\n\n    an unknown field'},
 'google': {'param': 'Args:\n    nope: no such parameter', 'xref': 'See `nonexistent_name_x` for more.'},
 'numpy': {'param': 'Parameters\n----------\nnope: int\n    no such parameter', 'xref': 'See `nonexistent_name_x` for more.'},
}
def gen(fmt, prob, kind, layout, k, raw):
    """-> (source, physical line of the problem construct (1-based), first and last line of the docstring)"""
    ptext = PROBLEMS[fmt][prob]
    body = ['Summary line.', '', 'A normal paragraph', 'spanning two lines.', ''] + ptext.split('\n') + ['', 'Closing paragraph.']
    pidx = 5   # index in body of the first problem line
    if kind == 'ivar_field':
        # the problem sits in the body of a field that documents an attribute of the class (the attribute's documentation is SPLIT
        # from the class docstring): the field starts at body[5], the problem text is on its continuation line
        tag = '@ivar attr:' if fmt == 'epytext' else ':ivar attr:'
        body = ['Summary line.', '', 'A normal paragraph', 'spanning two lines.', '', tag + ' the attribute,', '    ' + ptext, '    last line of the field.']
    if layout == 5:
        # a form feed (page break) on the separator line: one physical line for Python, a line boundary for str.splitlines() (seed C16-7)
        body[1] = '\x0c'
    lines = ['# c'] * k
    indent = ''
    if kind == 'module':
        head = None
    elif kind == 'function':
        lines.append('def f(x):'); indent = '    '
    elif kind == 'class':
        lines.append('class C:'); indent = '    '
    elif kind == 'method':
        lines += ['class C:', '    def m(self, x):']; indent = '        '
    elif kind == 'attribute':
        lines += ['class C:', '    attr = 1']; indent = '    '
    elif kind == 'ivar_field':
        lines.append('class C:'); indent = '    '
    elif kind == 'inherited':
        lines += ['class B:', '    def m(self, x):']; indent = '        '
    q = ('r' if raw else '') + '"""'
    # layouts: 0 text on the opening line; 1 text on the next line; 2 one blank line first; 3 two blank lines; 4 whitespace-only first line
    if layout == 0:
        doc = [indent + q + body[0]] + [indent + b if b else '' for b in body[1:]]
        first = len(lines) + 1
        pline = first + pidx
    else:
        pre = {1: [], 2: [''], 3: ['', ''], 4: [indent + '  '], 5: []}[layout]
        doc = [indent + q] + pre + [indent + b if b else '' for b in body]
        first = len(lines) + 1
        pline = first + 1 + len(pre) + pidx
    doc.append(indent + '"""')
    lines += doc
    last = len(lines)
    if kind in ('function', 'method', 'inherited'):
        lines.append(indent + 'return x')
    if kind == 'inherited':
        # the overriding method has no docstring of its own and shows the inherited one
        lines += ['class C(B):', '    def m(self, x):', '        return x']
    if kind == 'ivar_field':
        lines.append('    attr = 1')
    return '\n'.join(lines) + '\n', pline, first, last


FMTS = list(PROBLEMS)
KINDS = ["module", "function", "class", "method", "attribute", "ivar_field", "inherited"]
NAMES = {"module": "m", "function": "m.f", "class": "m.C", "method": "m.C.m", "attribute": "m.C.attr", "ivar_field": "m.C.attr", "inherited": "m.C.m"}
MSG = re.compile(r"^([^:]+):(\d+|\?\?\?): (.*)$", re.DOTALL)


def warnings_for(fmt, prob, kind, layout, k, raw):
    src, pline, first, last = gen(fmt, prob, kind, layout, k, raw)
    sample(docformat=fmt, problem=prob, planted_line=pline, source=src)
    opts = copy.copy(PJ.OPTS)
    opts.docformat = fmt
    s = PJ.build({"m": (src, False)}, opts=opts)
    o = s.allobjects[NAMES[kind]]
    if (k + layout) % 2:
        # a real run writes the summary pages before the individual pages: the summary is produced first (which of the two orders is
        # used varies with the layout, so that both occur for every kind)
        epydoc2stan.format_summary(o)
        epydoc2stan.format_docstring(o)
    else:
        epydoc2stan.format_docstring(o)
        epydoc2stan.format_summary(o)
    if kind == "inherited":
        # a run renders every object: the base method, on whose page problems of its docstring are reported, as well
        b = s.allobjects["m.B.m"]
        epydoc2stan.format_docstring(b)
        epydoc2stan.format_summary(b)
    out = []
    for _sec, m, t in s.msgs:
        if t < 0:
            mm = MSG.match(m)
            out.append((mm.group(1), mm.group(2), mm.group(3)) if mm else (None, None, m))
    return src, pline, first, last, out, s.violations if hasattr(s, "violations") else None


def check_planted(fmt, prob, kind, layout, k, raw):
    if prob not in PROBLEMS[fmt]:
        return True
    if prob in ("param", "param_below") and kind not in ("function", "method", "inherited"):
        return True
    if kind == "ivar_field" and (prob != "xref" or fmt not in ("epytext", "restructuredtext")):
        return True
    src, pline, first, last, ws, _v = warnings_for(fmt, prob, kind, layout, k, raw)
    ctx = dict(docformat=fmt, problem=prob, kind=kind, layout=layout, offset=k, raw=raw, planted_line=pline, docstring_lines=(first, last), src=src)
    if not ws:
        note(why="planted problem is not reported", **ctx)
        return False
    for where, line, text in ws:
        if where != "m" or line is None or not line.isdigit():
            note(why="warning does not name the file and a line", warning=(where, line, text[:80]), **ctx)
            return False
        ln = int(line)
        if fmt in ("epytext", "restructuredtext"):
            if ln != pline and not (kind == "ivar_field" and ln == pline + 1):      # (the field's first line, or the very line of the reference)
                key = None
                if fmt == "restructuredtext" and prob == "markup" and ln == pline + 1:
                    key = "C16:rst-inline-markup-error-reported-one-line-below-the-start-of-its-paragraph"
                if key and known(key):
                    continue
                note(why="warning names another line than the first line of the paragraph / field containing the problem", reported=ln, key=key, warning=text[:80], **ctx)
                return False
        elif not (first <= ln <= last):
            note(why="warning names a line outside the docstring", reported=ln, warning=text[:80], **ctx)
            return False
    # moving the definition down by k lines moves every reported line by k
    if k:
        _s, _p, _f, _l, ws0, _v0 = warnings_for(fmt, prob, kind, layout, 0, raw)
        if [int(l) + k for _w, l, _t in ws0 if l and l.isdigit()] != [int(l) for _w, l, _t in ws if l and l.isdigit()]:
            note(why="moving the definition by k lines does not move the reported lines by k", base=[l for _w, l, _t in ws0], moved=[l for _w, l, _t in ws], **ctx)
            return False
    return True


@harness(
    parts=lambda: [[f, kd] for f in range(len(FMTS)) for kd in range(len(KINDS))], timeout=(240, 1200), cls="E", tracing="concrete-after-choice", twin="first",
    code=["pydoctor.astutils.extract_docstring_linenum / Documentable.setDocstring", "pydoctor.model.Documentable.report", "pydoctor.epydoc2stan.reportErrors / Field.report / FieldHandler",
          "pydoctor.epydoc.markup.epytext (Token.startline, ParseError)", "pydoctor.epydoc.markup.restructuredtext (_EpydocReader.report, field line numbers)",
          "pydoctor.epydoc.markup._napoleon / pydoctor.napoleon (google, numpy)", "pydoctor.linker._EpydocLinker (unresolved cross-reference report)"],
    bounds={"quick": "4 docformats x problem kinds (unresolvable cross-reference, unknown field, documented parameter that does not exist, markup error; reST also: a field whose text starts below its marker line) x 7 object kinds (module, function, class, method, attribute, attribute documented by an @ivar field of its class's docstring, method showing a docstring inherited from its base class) x 6 docstring layouts (text on the opening line, below it, after 1 or 2 blank lines, after a whitespace-only line, with a form-feed character on the line after the summary) x vertical offset 0/3 x raw string or not (1 344 modules)",
            "thorough": "offsets 0..3"},
    outside="docstring texts other than the generated one; several problems per docstring",
)
def h_planted_problems(prob: int, layout: int, k: int, raw: bool) -> bool:
    """
    pre: 0 <= prob <= 5 and 0 <= layout <= 5 and 0 <= k <= 3
    pre: FULLK or k == 0 or k == 3
    post: _
    """
    fi, kd = PART if PART is not None else [0, 1]
    prob = pick(prob, 0, 5)
    layout = pick(layout, 0, 5)
    k = pick(k, 0, 3)
    raw = pickb(raw)
    with NoTracing():
        ok = check_planted(FMTS[fi], ["xref", "field", "param", "markup", "param_below", "field_blank_below"][prob], KINDS[kd], layout, k, raw)
    return done(ok)


FULLK = tier(False, True)
