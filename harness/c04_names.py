"""C04 - a name resolves to what Python would bind it to, or not at all.

K04a (S) relative-import arithmetic of ModuleVistor.visit_ImportFrom on a hand-built ast.ImportFrom with a SYMBOLIC level,
         against CPython's own resolver importlib._bootstrap._resolve_name.
K04b (F) `import a.b.c [as d]` judged on resolution results.
K04c (E) whole projects: every name bound in every module / class namespace, pydoctor's resolveName vs the object CPython binds
         (project imported through an in-memory finder).
"""
import ast
from importlib._bootstrap import _resolve_name

from lib.hx import harness, pick, pickb, done, tier, PART, note, known, sample

PROPERTY = "C04"
LEVEL = "model_checking"
ASSUMPTIONS = [
    "CPython's importlib._bootstrap._resolve_name is the oracle for relative-import arithmetic; CPython importing the same sources "
    "(in-memory meta-path finder) is the oracle for bindings",
    "projects are acyclic, definitions have globally unique names, each name is bound once per scope (the property's quantifier)",
    "the statement's 'always resolves' clause is judged only for names imported directly from the defining module or reached through a module alias",
]

from pydoctor import model, astbuilder
from pydoctor.options import Options
from crosshair.tracers import NoTracing
from lib import projects as PJ

OPTS = Options.defaults()
OPTS.verbosity = -3
model.System(OPTS)


# ------------------------------------------------------------------ K04a
@harness(
    parts=lambda: [[d, pkg, cls, mk] for d in range(4) for pkg in range(2) for cls in range(2) for mk in range(3)],
    timeout=(200, 900), cls="S", tracing="symbolic-through-pydoctor", twin="first",
    code=["pydoctor.astbuilder.ModuleVistor.visit_ImportFrom (level handling)", "._importNames", "pydoctor.model.CanContainImportsDocumentable._localNameToFullName_map"],
    bounds={"quick": "symbolic level 1..5 (flows through pydoctor's loop); package nesting depth 0..3; importing scope: module or package __init__, at module level or inside a class; module part none / m / m.n; alias or not",
            "thorough": "level 1..7"},
    outside="nesting deeper than 3 packages",
)
def h_relative_import(level: int, alias: bool) -> bool:
    """
    pre: 1 <= level <= MAXLEVEL
    post: _
    """
    d, ctx_is_pkg, in_class, modkind = PART if PART is not None else [2, 0, 0, 1]
    msgs = []
    s = model.System(OPTS)
    s.msg = lambda section, msg, **kw: msgs.append(msg)
    parent = None
    names = ["p0", "p1", "p2"]
    for i in range(d):
        p = model.Package(s, names[i], parent)
        p.parentMod = p
        s.addObject(p)
        p.state = model.ProcessingState.PROCESSED
        parent = p
    ctx = (model.Package if ctx_is_pkg else model.Module)(s, "c", parent)
    ctx.parentMod = ctx
    s.addObject(ctx)
    ctx.state = model.ProcessingState.PROCESSING
    b = s.defaultBuilder(s)
    vis = b.ModuleVistor(b, ctx)
    b.push(ctx, 0)
    scope = ctx
    if in_class:
        scope = b.pushClass("K", 1)
    modname = [None, "m", "m.n"][modkind]
    asname = "y" if alias else None
    node = ast.ImportFrom(module=modname, names=[ast.alias(name="x", asname=asname)], level=level)
    node.lineno = 1
    vis.visit_ImportFrom(node)
    package = ctx.fullName() if ctx_is_pkg else (parent.fullName() if parent else "")
    try:
        if not package:
            raise ImportError("no package")
        want = _resolve_name(modname or "", package, level)
    except ImportError:
        want = None
    local = asname or "x"
    got = scope.expandName(local)
    if want is None:
        # Python refuses the import: nothing may be bound (the name expands to itself) and the problem is reported
        ok = got == local and len(msgs) >= 1
    else:
        ok = got == want + ".x"
    if not ok:
        note(why="relative import bound differently from Python", depth=d, pkg=ctx_is_pkg, in_class=in_class, module=modname, level=level, got=got, want=want, msgs=msgs)
    return done(ok)


MAXLEVEL = tier(5, 7)


# ------------------------------------------------------------------ K04b
def check_plain_import(ncomp, alias, in_class, use_sub):
    comps = ["a", "b", "c"][:ncomp]
    dotted = ".".join(comps)
    s = model.System(OPTS)
    s.msg = lambda *a, **k: None
    ctx = model.Module(s, "ctx")
    ctx.parentMod = ctx
    s.addObject(ctx)
    ctx.state = model.ProcessingState.PROCESSING
    b = s.defaultBuilder(s)
    vis = b.ModuleVistor(b, ctx)
    b.push(ctx, 0)
    scope = b.pushClass("K", 1) if in_class else ctx
    node = ast.Import(names=[ast.alias(name=dotted, asname="d" if alias else None)])
    node.lineno = 1
    vis.visit_Import(node)
    if alias:
        # `import a.b.c as d` binds d to the module a.b.c
        cases = [("d", dotted), ("d.X", dotted + ".X")]
    else:
        # `import a.b.c` binds a; a.b.c.X is reached through it
        cases = [("a", "a"), (dotted + ".X", dotted + ".X")]
        if use_sub and ncomp >= 2:
            cases.append(("a.b", "a.b"))
    for name, want in cases:
        got = scope.expandName(name)
        if got != want:
            note(why="plain import resolves differently from Python", stmt="import %s%s" % (dotted, " as d" if alias else ""), name=name, got=got, want=want)
            return False
    return True


@harness(
    timeout=(120, 600), cls="F", tracing="concrete-after-choice", twin="first",
    code=["pydoctor.astbuilder.ModuleVistor.visit_Import", "pydoctor.model.Documentable.expandName"],
    bounds={"quick": "import of a dotted name of 1..3 components, with or without alias, at module level or inside a class", "thorough": "same"},
)
def h_plain_import(ncomp: int, alias: bool, in_class: bool, use_sub: bool) -> bool:
    """
    pre: 1 <= ncomp <= 3
    post: _
    """
    ncomp = pick(ncomp, 1, 3)
    alias, in_class, use_sub = pickb(alias), pickb(in_class), pickb(use_sub)
    with NoTracing():
        ok = check_plain_import(ncomp, alias, in_class, use_sub)
    return done(ok)


# ------------------------------------------------------------------ K04c
FORMS = ["from_abs", "from_abs_as", "from_rel1", "from_rel2", "star", "star_all", "star_emptyall", "import_mod_as", "import_dotted", "from_pkg_import_mod", "via_pkg_reimport", "from_rel_pkg_mod"]
USES = ["none", "base", "alias", "inner", "method_base"]


def gen(form, in_class, deep, use, second, priv=False):
    """defining module top[.sub].d ; consumer top[.sub].c (and optionally a second consumer importing from the first)"""
    pk = "top.sub" if deep else "top"
    src = {"top": ("'''top'''\n", True)}
    if deep:
        src["top.sub"] = ("", True)
    dsrc = "class Ka:\n    '''Ka'''\n    class Inner:\n        pass\n    def meth(self): pass\ndef fa():\n    '''fa'''\nclass _Kp:\n    pass\n"
    if form == "star_all":
        dsrc = "__all__ = ['Ka', 'fa']\n" + dsrc + "class Kz:\n    pass\n"
    if form == "star_emptyall":
        dsrc = "__all__ = []\n" + dsrc
    if priv:
        # the defining module binds an underscore name by import; `import *` must not carry it over (seed C04-6)
        src["top.z"] = ("class Qz:\n    pass\nclass Qy:\n    pass\n", False)
        dsrc = dsrc + "from top.z import Qz as _helper\nimport top.z as _zm\n"
    src[pk + ".d"] = (dsrc, False)
    name = "Ka"
    direct = True          # imported directly from the defining module, or through a module alias
    if form == "from_abs":
        imp = f"from {pk}.d import Ka, fa"
    elif form == "from_abs_as":
        imp = f"from {pk}.d import Ka as Kb, fa as fb"
        name = "Kb"
    elif form == "from_rel1":
        imp = "from .d import Ka, fa"
    elif form == "from_rel2":
        if not deep:
            return None
        imp = "from ..sub.d import Ka, fa"
    elif form in ("star", "star_all", "star_emptyall"):
        if in_class:
            return None          # `import *` is only allowed at module level
        imp = f"from {pk}.d import *"
    elif form == "import_mod_as":
        imp = f"import {pk}.d as dm"
        name = "dm.Ka"
    elif form == "import_dotted":
        imp = f"import {pk}.d"
        name = f"{pk}.d.Ka"
    elif form == "from_pkg_import_mod":
        imp = f"from {pk} import d"
        name = "d.Ka"
    elif form == "from_rel_pkg_mod":
        imp = "from . import d as dd"
        name = "dd.Ka"
    elif form == "via_pkg_reimport":
        src[pk] = (src[pk][0] + f"from {pk}.d import Ka, fa\n", True)
        imp = f"from {pk} import Ka, fa"
        direct = False
    if form == "star_emptyall" and use != "none":
        return None          # nothing is bound by the star import, so the uses would not even import
    body = ""
    if use == "base":
        body = f"class Uc({name}):\n    '''Uc'''\n"
    elif use == "alias":
        body = f"Alias = {name}\n"
    elif use == "inner":
        body = f"In = {name}.Inner\n"
    elif use == "method_base":
        body = f"class Um({name}.Inner):\n    pass\n"
    if priv and not in_class:
        imp = "from top.z import Qy as _helper\n" + imp          # bound once in the consumer: Python's star import leaves it alone
    if in_class:
        c = "class Scope:\n    " + imp + "\n" + "".join("    " + ln + "\n" for ln in body.splitlines())
    else:
        c = imp + "\n" + body
    src[pk + ".c"] = (c, False)
    if second:
        # a third module importing the consumer's names (module alias to the consumer)
        src[pk + ".e"] = (f"import {pk}.c as cm\nfrom {pk}.c import *\n", False)
    return src, direct


def compare(sources, direct):
    sample(sources={k: v[0] for k, v in sources.items()})
    pym = PJ.run_cpython(sources)
    s = PJ.build(sources)
    for mname, m in pym.items():
        scopes = [(mname, vars(m))]
        for k, v in vars(m).items():
            if isinstance(v, type) and v.__module__ == mname:
                scopes.append((mname + "." + v.__qualname__, vars(v)))
        for sname, ns in scopes:
            ctx = s.allobjects.get(sname)
            if ctx is None:
                note(why="scope not documented", scope=sname, sources=sources)
                return False
            for k, v in ns.items():
                if k.startswith("__"):
                    continue
                q = PJ.qual(v)
                if q is None:
                    continue
                r = ctx.resolveName(k)
                if r is None:
                    # allowed unless the name comes directly from the defining module / through a module alias
                    if direct and not sname.endswith(".e") and not sname == "top" and not sname == "top.sub":
                        note(why="name imported directly from its defining module does not resolve", scope=sname, name=k, expands_to=ctx.expandName(k), python=q, sources=sources)
                        return False
                elif r.fullName() != q:
                    note(why="name resolves to a different object than Python binds", scope=sname, name=k, pydoctor=r.fullName(), python=q, sources=sources)
                    return False
            # the other direction: a name Python does not bind in this scope (nor in the enclosing module) must not resolve
            visible = set(ns)
            if sname != mname:
                visible |= set(vars(m))
            for cand in CANDIDATES:
                if cand in visible:
                    continue
                r = ctx.resolveName(cand)
                if r is not None:
                    note(why="pydoctor resolves a name that Python does not bind in this scope", scope=sname, name=cand, pydoctor=r.fullName(), sources=sources)
                    return False
    return True


CANDIDATES = ["Ka", "Kb", "fa", "fb", "Kz", "_Kp", "Inner", "meth", "dm", "d", "dd", "cm", "Uc", "Alias", "In", "Um", "Scope", "_helper", "_zm", "Qz", "Qy"]


@harness(
    parts=lambda: list(range(len(FORMS))), timeout=(200, 900), cls="E", tracing="concrete-after-choice", twin="first",
    code=["pydoctor.astbuilder.ModuleVistor.visit_Import/visit_ImportFrom/_importNames/_importAll/_handleAliasing", "pydoctor.model.Documentable.expandName/resolveName",
          "Module/Class._localNameToFullName", "pydoctor.model.System.find_object/getProcessedModule"],
    bounds={"quick": "12 import forms (absolute, aliased, relative level 1 and 2, star, star with __all__, star with an empty __all__, module alias, dotted module, module from package, relative module alias, re-import through a package) x class scope or module scope x package depth 1..2 x 5 uses (none, base class, assignment alias, nested class alias, nested class as base) x optional third module importing the consumer x optional underscore names bound by import in the defining module (and the same name bound to another object in the consumer)",
            "thorough": "same"},
    outside="import cycles (C06), __all__-driven moves (C07), names bound more than once per scope, __getattr__ modules, namespace packages",
)
def h_project_binding(in_class: bool, deep: bool, use: int, second: bool, priv: bool) -> bool:
    """
    pre: 0 <= use <= 4
    post: _
    """
    form = FORMS[PART if PART is not None else 0]
    in_class, deep, second, priv = pickb(in_class), pickb(deep), pickb(second), pickb(priv)
    use = pick(use, 0, 4)
    with NoTracing():
        g = gen(form, in_class, deep, USES[use], second, priv)
        if g is None:
            return True
        ok = compare(g[0], g[1])
    return done(ok)
