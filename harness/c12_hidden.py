"""C12 - hidden objects leave no trace; private objects are always marked private.

K12a (F) API level: isVisible == "no HIDDEN ancestor-or-self"; listing helpers filter on it; css marker; link builder -
         for every privacy table on the mini model (privacy delivered by a stub of System.privacyClass, so the rule
         matcher, which is C13's subject, is factored out).
K12b (E) rendered level: the mini model rendered by the real TemplateWriter under every privacy table; the output
         directory is examined for traces of hidden objects and for the private marker on listing entries.
"""
from lib.hx import harness, pick, pickb, done, tier, PART, note, known, THOROUGH

PROPERTY = "C12"
LEVEL = "model_checking"
ASSUMPTIONS = [
    "privacy is delivered by a table turned into one exact-name --privacy rule per object; pattern rules and precedence are C13",
    "the project is the fixed mini model of lib/minimodel.py, extended (package, 2 modules, 5 classes incl. a subclass overriding a method, a subclass in the "
    "other module and a nested class, function with annotations and cross-references to the other module, variables)",
    "K12b runs CrossHair with file-system events unblocked; it writes only below its own mkdtemp directory",
]

from pydoctor import model, linker
from pydoctor.templatewriter import util as tutil
from pydoctor.templatewriter import summary as tsummary
from crosshair.tracers import NoTracing
from lib import minimodel as M
from lib import crawl

H, PV, PU = model.PrivacyClass.HIDDEN, model.PrivacyClass.PRIVATE, model.PrivacyClass.PUBLIC
PRIV = [H, PV, PU]

VARY_API = ["pkg.a", "pkg.a.C", "pkg.a.C.m", "pkg.a.C.v", "pkg.a.D", "pkg.a.D.m", "pkg.b", "pkg.b.f"]


def check_api(table):
    s = M.build(table, extended=True)
    objs = {n: s.allobjects[n] for n in M.OBJECTS_X}
    hid = {n: M.hidden_star(table, n) for n in M.OBJECTS_X}
    for n, o in objs.items():
        if o.isVisible != (not hid[n]):
            note(why="isVisible differs from 'no hidden ancestor-or-self'", name=n, table={k: v.name for k, v in table.items()})
            return False
        if o.isPrivate != (M.privacy_of(table, n) is not PU):
            note(why="isPrivate", name=n)
            return False
        want_private = M.privacy_of(table, n) is PV
        try:
            css = tutil.css_class(o)
        except AttributeError:
            css = None
        if css is not None and (("private" in css.split()) != want_private) and not hid[n]:
            note(why="css_class private marker", name=n, css=css, want=want_private)
            return False
    pkg = objs["pkg"]
    subs = [m.fullName() for m in pkg.submodules()]
    want = sorted(n for n in ("pkg.a", "pkg.b", "pkg.__main__") if not hid[n])
    if sorted(subs) != want:
        note(why="Package.submodules() lists hidden or drops visible modules", got=subs, want=want)
        return False
    # inherited member tables
    D, C = objs["pkg.a.D"], objs["pkg.a.C"]
    listed = [o.fullName() for _via, attrs in tutil.class_members(D) for o in attrs]
    want = [n for n in ("pkg.a.D.m", "pkg.a.C.v") if not hid[n]]
    if sorted(listed) != sorted(want):
        note(why="class_members(D) lists hidden or drops visible members", got=listed, want=want)
        return False
    inh = [o.fullName() for o in tutil.inherited_members(D)]
    if inh != [n for n in ("pkg.a.C.v",) if not hid[n]]:
        note(why="inherited_members(D)", got=inh)
        return False
    over = [c.fullName() for c in tutil.overriding_subclasses(C, "m")]
    if any(hid[n] for n in over) or (not hid["pkg.a.D"] and not hid["pkg.a.D.m"] and over != ["pkg.a.D"]):
        note(why="overriding_subclasses(C, 'm') names a hidden class or drops a visible override", got=over)
        return False
    roots = tsummary.findRootClasses(s)
    listed = []
    for _name, val in roots:
        listed += [c.fullName() for c in (val if isinstance(val, (list, tuple)) else [val])]
    if any(hid[n] for n in listed):
        note(why="findRootClasses lists a hidden class", got=listed)
        return False
    for n in ("pkg.a.C", "pkg.a._P"):
        if not hid[n] and n not in listed:
            note(why="findRootClasses drops a visible root class", got=listed, missing=n)
            return False
    if hid["pkg.a.C"] and not hid["pkg.a.D"] and "pkg.a.D" not in listed:
        note(why="visible class below a hidden base is not listed", got=listed)
        return False
    # link builder
    for n, o in objs.items():
        tag = linker.taglink(o, "somepage.html", "label")
        href = getattr(tag, "attributes", {}).get("href") if hasattr(tag, "attributes") else None
        if hid[n] and href:
            key = "C12:taglink-href-to-hidden-target"
            if not known(key):
                note(why="taglink builds a hyperlink to a hidden object", name=n, href=href, key=key)
                return False
        if not hid[n] and not href:
            note(why="taglink builds no hyperlink to a visible object", name=n)
            return False
    return True


NAPI = tier(6, 8)


@harness(
    parts=lambda: [[a, b] for a in range(3) for b in range(3)], timeout=(240, 2400), cls="F", tracing="concrete-after-choice", twin="first",
    code=["pydoctor.model.Documentable.isVisible/isPrivate/privacyClass", "pydoctor.model.Package.submodules", "pydoctor.templatewriter.util.css_class/class_members/unmasked_attrs/inherited_members/overriding_subclasses/nested_bases",
          "pydoctor.templatewriter.summary.findRootClasses", "pydoctor.linker.taglink"],
    bounds={"quick": "every HIDDEN/PRIVATE/PUBLIC assignment to 6 objects of the mini model (module a, class C, C.m, C.v, subclass D, D.m): 729 tables",
            "thorough": "8 objects (adds module b and b.f): 6561 tables"},
    stubs=["privacy delivered as one exact-name --privacy rule per object (real rule machinery)"],
    outside="projects other than the mini model; privacy produced by real rules (C13)",
)
def h_visibility_api(p2: int, p3: int, p4: int, p5: int, p6: int, p7: int) -> bool:
    """
    pre: 0 <= p2 <= 2 and 0 <= p3 <= 2 and 0 <= p4 <= 2 and 0 <= p5 <= 2 and 0 <= p6 <= 2 and 0 <= p7 <= 2
    pre: NAPI >= 8 or (p6 == 2 and p7 == 2)
    post: _
    """
    p0, p1 = PART if PART is not None else [2, 2]
    ps = [p0, p1, pick(p2, 0, 2), pick(p3, 0, 2), pick(p4, 0, 2), pick(p5, 0, 2), pick(p6, 0, 2), pick(p7, 0, 2)]
    with NoTracing():
        table = {n: PRIV[p] for n, p in zip(VARY_API, ps)}
        table["pkg.a._P"] = PV
        ok = check_api(table)
    return done(ok)


# ------------------------------------------------------------------ K12b rendered
VARY_R = ["pkg.a", "pkg.a.C", "pkg.a.C.m", "pkg.a.D", "pkg.b", "pkg.b.f", "pkg.a.C.v", "pkg.a.D.m"]
THEMES = ["classic", "base", "readthedocs"]
NR = tier(6, 8)


def check_rendered(table, theme):
    s = M.build(table, extended=True)
    out = crawl.render(s, theme)
    try:
        objs = {n: s.allobjects[n] for n in M.OBJECTS_X}
        hidden = [o for n, o in objs.items() if M.hidden_star(table, n)]
        private = [o for n, o in objs.items() if not M.hidden_star(table, n) and M.privacy_of(table, n) is PV]
        probs = crawl.hidden_traces(out, s, hidden)
        if probs:
            kinds = {p[0] for p in probs}
            if kinds <= {"link-to-hidden"} and known("C12:taglink-href-to-hidden-target"):
                pass
            else:
                note(why="hidden object leaves a trace in the output", problems=probs[:6], table={k: v.name for k, v in table.items()}, theme=theme)
                return False
        pm, seen = crawl.private_markers(out, s, private)
        if pm:
            note(why="listing entry of a private object without the private marker", problems=pm[:6], table={k: v.name for k, v in table.items()}, theme=theme)
            return False
        visible = {n for n in M.OBJECTS_X if not M.hidden_star(table, n)}
        mp = crawl.missing_pages(out, s, visible)
        if mp:
            note(why="visible object without page/anchor", problems=mp[:6], table={k: v.name for k, v in table.items()})
            return False
        return True
    finally:
        out.close()


UNBLOCK = ["open", "os.mkdir", "os.symlink", "os.remove", "os.rmdir", "shutil.rmtree", "os.scandir", "os.listdir", "os.rename", "os.unlink", "shutil.copyfile", "shutil.copytree", "os.chmod", "os.utime", "shutil.copystat", "shutil.copymode"]


@harness(
    parts=lambda: [[a, b, t] for a in range(3) for b in range(3) for t in range(3 if THOROUGH else 1)], timeout=(300, 3000), cls="E", tracing="concrete-after-choice", twin="first",
    unblock=UNBLOCK,
    code=["pydoctor.templatewriter.writer.TemplateWriter.writeSummaryPages/writeIndividualFiles/_writeDocsFor", "pydoctor.templatewriter.pages.*", "summary.*", "pages.sidebar.*", "pages.table.*",
          "search.*", "pydoctor.sphinx.SphinxInventoryWriter", "pydoctor.linker.taglink/_EpydocLinker", "pydoctor.model.Documentable.isVisible/url"],
    bounds={"quick": "mini model rendered with the classic theme under every HIDDEN/PRIVATE/PUBLIC assignment to 6 objects (729 renders)",
            "thorough": "8 objects x 3 themes (19 683 renders)"},
    stubs=["privacy delivered as one exact-name --privacy rule per object (real rule machinery)"],
    outside="JavaScript-built search results; projects other than the mini model (C11 varies the project)",
)
def h_hidden_rendered(p2: int, p3: int, p4: int, p5: int, p6: int, p7: int) -> bool:
    """
    pre: 0 <= p2 <= 2 and 0 <= p3 <= 2 and 0 <= p4 <= 2 and 0 <= p5 <= 2 and 0 <= p6 <= 2 and 0 <= p7 <= 2
    pre: NR >= 8 or (p6 == 2 and p7 == 2)
    post: _
    """
    p0, p1, th = PART if PART is not None else [2, 2, 0]
    ps = [p0, p1, pick(p2, 0, 2), pick(p3, 0, 2), pick(p4, 0, 2), pick(p5, 0, 2), pick(p6, 0, 2), pick(p7, 0, 2)]
    with NoTracing():
        table = {n: PRIV[p] for n, p in zip(VARY_R, ps)}
        table["pkg.a._P"] = PV
        ok = check_rendered(table, THEMES[th])
    return done(ok)
