"""C18 (narrow) - equal inputs give identical output: consumers of unordered sources must not let the order through.

Byte-identical output trees across processes and hash seeds cannot be put to a solver.  What can: the places where
pydoctor consumes an UNORDERED source (a set, a directory listing).  The order becomes a variable - a stub iterates the
source in a solver-chosen permutation - and the consumer's result must be the same for every permutation.

K18a  System.root_names (a set) as consumed by driver.get_system (project name guess), Documentable.url (index.html rule),
      summary.summaryPages, the writer's single-root rule.
K18b  System.addPackage over a directory whose iterdir() yields its entries in a chosen permutation.
"""
import itertools
import os
import shutil
import tempfile
from pathlib import Path, PosixPath

from lib.hx import harness, pick, pickb, done, tier, PART, note, known

PROPERTY = "C18"
LEVEL = "model_checking"
ASSUMPTIONS = [
    "narrow claim: only consumers of System.root_names and of Path.iterdir() are decided; hash-seed effects not mediated by these, "
    "file-system timestamps, a reused output directory and third-party libraries (lunr, docutils) are outside",
    "the unordered source is modelled by a collection / directory listing that iterates in an arbitrary permutation",
]

from pydoctor import model, driver
from pydoctor.options import Options
from pydoctor.templatewriter import summary as tsummary
from crosshair.tracers import NoTracing
import copy

OPTS = Options.defaults()
OPTS.verbosity = -3
ROOTS = ["zeta", "alpha", "mid"]
PERMS3 = list(itertools.permutations(range(3)))


class PermutedNames:
    """stands for the set System.root_names: same members, iteration order = the chosen permutation"""

    def __init__(self, names, perm):
        self._names = [names[i] for i in perm if i < len(names)]

    def __iter__(self):
        return iter(list(self._names))

    def __len__(self):
        return len(self._names)

    def __contains__(self, x):
        return x in self._names

    def __eq__(self, other):
        return set(self._names) == set(other)

    def __hash__(self):
        return 0


def make_system_class(nroots, perm):
    class Builder(model.SystemBuilder):
        def __init__(self, system):
            super().__init__(system)
            for r in ROOTS[:nroots]:
                self.addModuleString('"""Root %s."""\nclass K:\n    """A class."""\n' % r, r, is_package=False)

    class S(model.System):
        systemBuilder = Builder

        @property
        def root_names(self):
            return PermutedNames([o.name for o in self.rootobjects], perm)

    return S


def observe(nroots, perm, named):
    opts = copy.copy(OPTS)
    opts.sourcepath = []
    opts.intersphinx = []
    opts.enable_intersphinx_cache = False
    opts.projectname = "given" if named else None
    opts.systemclass = make_system_class(nroots, perm)
    msgs = []
    s = driver.get_system(opts)
    obs = {
        "projectname": s.projectname,
        "urls": sorted((o.fullName(), o.url) for o in s.allobjects.values()),
        "summary_pages": [p.__name__ for p in tsummary.summaryPages(s)],
        "single_root": len(s.root_names) == 1,
    }
    return obs


def check_roots(nroots, pi, named):
    base = observe(nroots, PERMS3[0], named)
    got = observe(nroots, PERMS3[pi], named)
    if got != base:
        diff = {k: (base[k], got[k]) for k in base if base[k] != got[k]}
        key = "C18:project-name-guess-joins-a-set" if set(diff) == {"projectname"} else None
        if key and known(key):
            return True
        note(why="result depends on the iteration order of System.root_names", nroots=nroots, order=[ROOTS[i] for i in PERMS3[pi] if i < nroots], diff=diff, key=key)
        return False
    # sanity of the single-root rule, whatever the order
    want_index = nroots == 1
    if any(u == "index.html" for _n, u in got["urls"]) != want_index:
        note(why="index.html rule", nroots=nroots, urls=got["urls"])
        return False
    return True


@harness(
    timeout=(200, 600), cls="F", tracing="concrete-after-choice", twin="first",
    code=["pydoctor.driver.get_system (project name guess)", "pydoctor.model.System.root_names consumers: Documentable.url, templatewriter.summary.summaryPages, writer single-root rule"],
    bounds={"quick": "1..3 root modules, every iteration order of the root-name collection (6), project name given or guessed", "thorough": "same"},
    stubs=["System.root_names replaced (in a subclass passed as --system-class) by a collection with the same members iterating in the chosen permutation",
           "roots added from strings by a SystemBuilder subclass (no file system)"],
    outside="more than 3 roots; everything listed under ASSUMPTIONS",
)
def h_root_names_order(nroots: int, pi: int, named: bool) -> bool:
    """
    pre: 1 <= nroots <= 3 and 0 <= pi <= 5
    post: _
    """
    nroots = pick(nroots, 1, 3)
    pi = pick(pi, 0, 5)
    named = pickb(named)
    with NoTracing():
        ok = check_roots(nroots, pi, named)
    return done(ok)


# ------------------------------------------------------------------ K18b directory listing order
class PermPath(PosixPath):
    """a real path whose iterdir() yields its entries in the order chosen by PERM[0] (children are PermPaths too)"""
    PERM = [0]

    def iterdir(self):
        entries = sorted(super().iterdir())
        perms = list(itertools.permutations(range(len(entries))))
        p = perms[PermPath.PERM[0] % len(perms)]
        return iter([entries[i] for i in p])


def make_tree():
    d = tempfile.mkdtemp(prefix="verif_c18_")
    pkg = os.path.join(d, "pkg")
    os.makedirs(os.path.join(pkg, "sub"))
    for rel in ("__init__.py", "b.py", "a.py", "B.py", "sub/__init__.py", "sub/y.py", "sub/Y.py"):
        with open(os.path.join(pkg, rel), "w") as f:
            f.write('"""m"""\n')
    return d


def observe_dir(perm_index):
    d = make_tree()
    try:
        PermPath.PERM[0] = perm_index
        s = model.System(copy.copy(OPTS))
        s.msg = lambda *a, **k: None
        s.addPackage(PermPath(os.path.join(d, "pkg")), None)
        order = [m.fullName() for m in s.unprocessed_modules]
        s.process()
        contents = [n for n in s.allobjects["pkg"].contents]
        return order, contents
    finally:
        PermPath.PERM[0] = 0
        shutil.rmtree(d, ignore_errors=True)


def check_dir(pi):
    base = observe_dir(0)
    got = observe_dir(pi)
    if got != base:
        note(why="module discovery order depends on the order in which the file system lists a directory", perm=pi, base=base, got=got)
        return False
    return True


UNBLOCK = ["open", "os.mkdir", "os.remove", "os.rmdir", "shutil.rmtree", "os.scandir", "os.listdir", "os.unlink", "os.makedirs", "os.stat", "os.lstat"]


@harness(
    timeout=(200, 600), cls="F", tracing="concrete-after-choice", twin="first", unblock=UNBLOCK,
    code=["pydoctor.model.System.addPackage", "addModuleFromPath", "analyzeModule", "_addUnprocessedModule"],
    bounds={"quick": "package with 5 entries (modules a, b, B - two names differing only in case -, a sub-package with modules y and Y): all 120 listing orders of the top directory (the same permutation index, reduced, is applied to the sub-directory)", "thorough": "same"},
    stubs=["Path.iterdir replaced (PosixPath subclass) by a listing in the chosen permutation; real files under a mkdtemp directory"],
    outside="command-line order of several roots (that order is an input, not a nondeterminism)",
)
def h_iterdir_order(pi: int) -> bool:
    """
    pre: 0 <= pi < 120
    post: _
    """
    pi = pick(pi, 0, 119)
    with NoTracing():
        ok = check_dir(pi)
    return done(ok)
