"""C15 - a displayed value or expression means the same as the source expression.

K15a (E) grouping: every (parent form, child form, operand position) of depth 2 - thorough: operator chains of depth 3 -
         rendered by colorize_inline_pyval, read back by Python's parser, compared as ASTs.
K15b (F/S) string and bytes escaping round trip through the colorizer / _str_escape.
K15c (S) wrapping (`_output` arithmetic on symbolic ints) and truncation (`colorize`/_trim_result/_multiline).
"""
import ast

from lib.hx import harness, pick, pickb, done, tier, PART, note, known, THOROUGH, sample

PROPERTY = "C15"
LEVEL = "model_checking"
ASSUMPTIONS = [
    "Python's own parser (ast.parse) is the reading of the displayed text; documented spelling changes are normalised: "
    "set display shown as set([...]), quote style, redundant parentheses",
    "leaves are names a, b, c, x, y, z; constants are covered by K15b",
]

from pydoctor.epydoc.markup._pyval_repr import colorize_inline_pyval, colorize_pyval, PyvalColorizer, _ColorizerState, _str_escape, _bytes_escape
from pydoctor.node2stan import gettext
from crosshair.tracers import NoTracing

BINOPS = ["+", "-", "*", "/", "//", "%", "**", "<<", ">>", "|", "^", "&", "@"]
UNOPS = ["-", "+", "~", "not "]
CMPOPS = ["<", "==", "in", "is not"]


def forms(x, y, z):
    F = {}
    for op in BINOPS:
        F["bin" + op] = f"{x} {op} {y}"
    for op in UNOPS:
        F["un" + op.strip()] = f"{op}{x}"
    F["and"] = f"{x} and {y}"
    F["or"] = f"{x} or {y}"
    for op in CMPOPS:
        F["cmp" + op] = f"{x} {op} {y}"
    F["cmpchain"] = f"{x} < {y} < {z}"
    F["ifexp"] = f"{x} if {y} else {z}"
    F["lambda"] = f"lambda: {x}"
    F["call"] = f"{x}({y})"
    F["callkw"] = f"f(k={x})"
    F["callstar"] = f"f(*{x})"
    F["callss"] = f"f(**{x})"
    F["sub"] = f"{x}[{y}]"
    F["subslice"] = f"{x}[{y}:{z}]"
    F["subtuple"] = f"{x}[{y}, {z}]"
    F["attr"] = f"{x}.attr"
    F["tuple1"] = f"({x},)"
    F["tuple2"] = f"({x}, {y})"
    F["list"] = f"[{x}, {y}]"
    F["set"] = "{" + f"{x}, {y}" + "}"
    F["dict"] = "{" + f"{x}: {y}" + "}"
    F["dictss"] = "{" + f"**{x}" + "}"
    F["starred"] = f"[*{x}]"
    F["await"] = f"await {x}"
    F["yield"] = f"(yield {x})"
    F["listcomp"] = f"[{x} for q in {y}]"
    F["genexp"] = f"({x} for q in {y})"
    return F


KINDS = list(forms("x", "y", "z"))
NK = len(KINDS)
OPKINDS = [k for k in KINDS if k.startswith(("bin", "un", "cmp")) or k in ("and", "or", "ifexp", "lambda")]


class _Norm(ast.NodeTransformer):
    def visit_Call(self, n):
        self.generic_visit(n)
        if isinstance(n.func, ast.Name) and n.func.id == "set" and len(n.args) == 1 and isinstance(n.args[0], ast.List) and not n.keywords:
            return ast.Set(elts=n.args[0].elts)
        return n


def norm(node):
    return ast.dump(_Norm().visit(node))


def render(src, inline=True):
    e = ast.parse(src, mode="eval").body
    rep = colorize_inline_pyval(e) if inline else colorize_pyval(e, linelen=0, maxlines=0, linebreakok=True)
    COMPLETE[0] = rep.is_complete
    return "".join(gettext(rep.to_node()))


COMPLETE = [True]


class _DropOneTuples(ast.NodeTransformer):
    def visit_Tuple(self, n):
        self.generic_visit(n)
        return n.elts[0] if len(n.elts) == 1 else n


def finding_key(pk, ck, want, got):
    """Names the recorded defect that fully explains the difference, or None."""
    w1 = ast.dump(_DropOneTuples().visit(_Norm().visit(ast.parse(ast.unparse(want), mode="eval").body)))
    g1 = ast.dump(_DropOneTuples().visit(_Norm().visit(ast.parse(ast.unparse(got), mode="eval").body)))
    if w1 == g1 and "tuple1" in (pk, ck):
        return "C15:one-element-tuple-shown-without-comma"
    if any(isinstance(n, ast.Slice) and any(isinstance(b, ast.Tuple) for b in (n.lower, n.upper, n.step)) for n in ast.walk(want)):
        return "C15:slice-bound-tuple-loses-parentheses"
    return None


def check_expr(psrc, pk, ck, extra="", inline=True):
    try:
        want = ast.parse(psrc, mode="eval").body
    except SyntaxError:
        return True
    sample(expression=psrc, inline=inline)
    try:
        out = render(psrc, inline)
    except Exception as e:
        note(why="colorizer raised", src=psrc, exc=repr(e))
        return False
    if not COMPLETE[0]:
        # cut (inline values cannot hold a line break): must be visibly marked, nothing more is claimed here (K15c)
        if out.endswith("..."):
            return True
        note(why="incomplete rendering not marked", src=psrc, shown=out)
        return False
    try:
        got = ast.parse(out, mode="eval").body
    except SyntaxError:
        note(why="displayed text does not read back as an expression", src=psrc, shown=out)
        return False
    if norm(got) == norm(want):
        return True
    key = finding_key(pk, ck, want, got)
    if key and known(key):
        return True
    note(why="displayed expression differs from the source expression", src=psrc, shown=out, key=key)
    return False


@harness(
    parts=lambda: list(range(NK)), timeout=(200, 1200), cls="E", tracing="concrete-after-choice", twin="first",
    code=["pydoctor.epydoc.markup._pyval_repr._OperatorDelimiter", "PyvalColorizer._colorize_ast*", "colorize_inline_pyval", "pydoctor.node2stan.gettext"],
    bounds={"quick": "every parent form (47) x child form (47) x operand position (<=3): unary, 13 binary, boolean, 4 comparison operators, chain, conditional, lambda, call (positional, keyword, *, **), subscript (index, slice, tuple), attribute, 1- and 2-tuples, list, set, dict, dict unpacking, starred, await, yield, comprehensions",
            "thorough": "same"},
    outside="f-strings, deeper trees than the harness shapes, regex colourising",
)
def h_expr_depth2(ck: int, pos: int) -> bool:
    """
    pre: 0 <= ck < NK and 0 <= pos <= 2
    post: _
    """
    pk = KINDS[PART if PART is not None else 0]
    ck = KINDS[pick(ck, 0, NK - 1)]
    pos = pick(pos, 0, 2)
    with NoTracing():
        child = "(" + forms("a", "b", "c")[ck] + ")"
        args = ["x", "y", "z"]
        args[pos] = child
        psrc = forms(*args)[pk]
        if child not in psrc:
            return True
        ok = check_expr(psrc, pk, ck)
    return done(ok)


LEAVES = ["'usage: prog [options]\\n    --help   show this help'", "'a\\nb'", "1000000", "1e+100", "16", "b'\\x00\\''", "...", "None", "'it\\'s'", "-1", "1.5j",
          "'tab\\there and a long tail of text to pass twenty characters'", "(1, 'x\\ny')", "'a\\x00b'", "'\\x01\\x7f'"]
NLEAF = len(LEAVES)


@harness(
    parts=lambda: list(range(NK)), timeout=(200, 1200), cls="E", tracing="concrete-after-choice", twin="first",
    code=["PyvalColorizer._colorize_ast_constant/_colorize_str", "PyvalColorizer._colorize_ast_generic (astor fallback)", "PyvalColorizer._colorize_ast*", "colorize_inline_pyval / colorize_pyval"],
    bounds={"quick": "every parent form (47) x operand position x 15 literal leaves (long and short multi-line strings, string with quote, with tab, big int, float with exponent, bytes with NUL and quote, Ellipsis, None, negative number, imaginary, tuple holding a multi-line string), inline and multi-line rendering",
            "thorough": "same"},
    outside="f-strings; leaves outside the table",
)
def h_expr_leaves(leaf: int, pos: int, inline: bool) -> bool:
    """
    pre: 0 <= leaf < NLEAF and 0 <= pos <= 2
    post: _
    """
    pk = KINDS[PART if PART is not None else 0]
    leaf = pick(leaf, 0, NLEAF - 1)
    pos = pick(pos, 0, 2)
    inline = pickb(inline)
    with NoTracing():
        args = ["x", "y", "z"]
        args[pos] = LEAVES[leaf]
        psrc = forms(*args)[pk]
        if LEAVES[leaf] not in psrc:
            return True
        ok = check_expr(psrc, pk, "leaf", inline=inline)
    return done(ok)


EXTRA = {
    "dictcomp": "{{{0}: {1} for q in {2}}}", "setcomp": "{{{0} for q in {1}}}", "listcomp_if": "[{0} for q in {1} if {2}]", "genexp_call": "f({0} for q in {1})",
    "walrus": "(w := {0})", "slice_step": "{0}[{1}::{2}]", "slice_full": "v[{0}:{1}:{2}]", "lambda_args": "lambda a, b={0}: {1}", "lambda_star": "lambda *a, **k: {0}",
    "call_mixed": "f({0}, *{1}, k={2})", "attr_call": "{0}.meth({1})", "subscript_call": "{0}[{1}]({2})", "notin": "{0} not in {1}", "is": "{0} is {1}",
    "cmp_mixed": "{0} < {1} == {2}", "boolmix": "{0} and {1} or {2}", "not": "not {0}", "neg_pow": "-{0} ** {1}", "pow_neg": "{0} ** -{1}", "await_call": "await {0}({1})",
    "yield_from": "(yield from {0})", "ellipsis_sub": "{0}[..., {1}]", "dict_multi": "{{{0}: {1}, **{2}}}", "tuple_star": "(*{0}, {1})", "nested_ifexp": "{0} if {1} else ({2} if a else b)",
    "str_concat": "'a' 'b' + {0}", "call_kwstar": "f(**{0}, **{1})", "generic_ann": "Dict[{0}, List[{1}]]", "callable_ann": "Callable[[{0}, {1}], {2}]",
    "sub_empty_tuple": "{0}[()]", "re_kwstar": "re.compile('a', **{0})", "re_flags_kwstar": "re.compile('a', re.I, **{0})", "re_star": "re.compile(*{0})", "re_kw": "re.compile(pattern={0}, flags={1})",
}
EKEYS = list(EXTRA)
NE = len(EKEYS)


@harness(
    parts=lambda: list(range(NE)), timeout=(200, 1200), cls="E", tracing="concrete-after-choice", twin="first",
    code=["PyvalColorizer._colorize_ast* (comprehensions, walrus, slices with step, lambdas with arguments, mixed call arguments, chained comparisons, yield from, dict/tuple unpacking, annotation subscripts)", "_OperatorDelimiter"],
    bounds={"quick": "34 further parent forms x child form (47 + plain name) x operand position", "thorough": "same"},
    outside="f-strings (astor renders a set/dict display inside the braces as escaped braces - noted, not claimed)",
)
def h_expr_more(ck: int, pos: int) -> bool:
    """
    pre: 0 <= ck <= NK and 0 <= pos <= 2
    post: _
    """
    pk = EKEYS[PART if PART is not None else 0]
    ck = pick(ck, 0, NK)
    pos = pick(pos, 0, 2)
    with NoTracing():
        tmpl = EXTRA[pk]
        if "{%d}" % pos not in tmpl:
            return True
        args = ["x", "y", "z"]
        cname = "name"
        if ck < NK:
            cname = KINDS[ck]
            args[pos] = "(" + forms("a", "b", "c")[cname] + ")"
        ok = check_expr(tmpl.format(*args), pk, cname)
    return done(ok)


NOP = len(OPKINDS)


@harness(
    parts=lambda: [[g, m] for g in (range(NOP) if THOROUGH else [OPKINDS.index(k) for k in ("bin-", "bin**", "un-", "and", "cmp<", "ifexp")]) for m in range(NOP)],
    timeout=(200, 2400), cls="E", tracing="concrete-after-choice", twin="first",
    code=["pydoctor.epydoc.markup._pyval_repr._OperatorDelimiter", "PyvalColorizer._colorize_ast_unary_op/_binary_op/_bool_op/compare/ifexp/lambda"],
    bounds={"quick": "operator chains of depth 3 (grandparent op x parent op x child op, all operand positions) for 6 of the 25 grandparent operators",
            "thorough": "all 25 x 25 x 25 operator chains x positions"},
    outside="chains deeper than 3",
)
def h_expr_chain3(ck: int, pos1: int, pos2: int) -> bool:
    """
    pre: 0 <= ck < NOP and 0 <= pos1 <= 2 and 0 <= pos2 <= 2
    post: _
    """
    g, m = PART if PART is not None else [0, 1]
    gk = OPKINDS[g]
    mk = OPKINDS[m]
    ck = OPKINDS[pick(ck, 0, NOP - 1)]
    pos1 = pick(pos1, 0, 2)
    pos2 = pick(pos2, 0, 2)
    with NoTracing():
        child = "(" + forms("a", "b", "c")[ck] + ")"
        a2 = ["p", "q", "r"]
        a2[pos2] = child
        mid = forms(*a2)[mk]
        if child not in mid:
            return True
        mid = "(" + mid + ")"
        a1 = ["x", "y", "z"]
        a1[pos1] = mid
        top = forms(*a1)[gk]
        if mid not in top:
            return True
        ok = check_expr(top, gk, mk)
    return done(ok)


# ------------------------------------------------------------------ K15b escaping
SCHARS = ["'", '"', "\\", "\n", "\t", "\r", "\f", "\v", "a", " ", "\udc80", "é", "{", "%"]
BCHARS = [0, 9, 10, 13, 34, 39, 92, 97, 127, 128, 255]
NS = len(SCHARS)
NB = len(BCHARS)
SLEN = tier(3, 4)


def check_string(value, linebreakok):
    node = ast.Constant(value=value)
    rep = colorize_pyval(node, linelen=0, maxlines=0, linebreakok=linebreakok)
    text = "".join(gettext(rep.to_node()))
    if not rep.is_complete:
        note(why="not complete without limits", value=repr(value))
        return False
    try:
        back = ast.literal_eval(text)
    except Exception as e:
        note(why="displayed literal does not read back", value=repr(value), shown=text, exc=repr(e))
        return False
    if back != value or type(back) is not type(value):
        note(why="displayed literal reads back as a different value", value=repr(value), shown=text, back=repr(back))
        return False
    return True


@harness(
    parts=lambda: [[k, lb, n] for k in range(2) for lb in range(2) for n in range(SLEN + 1)], timeout=(200, 1200), cls="F", tracing="concrete-after-choice", twin="first",
    code=["pydoctor.epydoc.markup._pyval_repr._str_escape", "_bytes_escape", "PyvalColorizer._colorize_str", "PyvalColorizer._colorize_ast_constant"],
    bounds={"quick": "str of <= 3 characters over {' \" \\\\ \\n \\t \\r \\f \\v a space, lone surrogate U+DC80, e-acute, { %}; bytes of <= 3 over {0,9,10,13,34,39,92,97,127,128,255}; line breaks allowed or not",
            "thorough": "<= 4 characters / bytes"},
    outside="other control characters (shown raw by design), longer strings",
)
def h_string_escape(c0: int, c1: int, c2: int, c3: int) -> bool:
    """
    pre: 0 <= c0 < 14 and 0 <= c1 < 14 and 0 <= c2 < 14 and 0 <= c3 < 14
    pre: (PART is None) or ((PART[2] >= 1 or c0 == 0) and (PART[2] >= 2 or c1 == 0) and (PART[2] >= 3 or c2 == 0) and (PART[2] >= 4 or c3 == 0))
    post: _
    """
    isbytes, lb, n = PART if PART is not None else [0, 1, 4]
    cs = [pick(c, 0, 13) for c in (c0, c1, c2, c3)][:n]
    if isbytes and any(c >= NB for c in cs):
        return True
    with NoTracing():
        value = bytes(BCHARS[c] for c in cs) if isbytes else "".join(SCHARS[c] for c in cs)
        ok = check_string(value, bool(lb))
    return done(ok)


def _unescape(e):
    """reference reader of a simple-quoted Python string body (the escapes _str_escape may produce)"""
    out = []
    i = 0
    table = {"'": "'", "t": "\t", "r": "\r", "n": "\n", "f": "\f", "v": "\v", "\\": "\\"}
    while i < len(e):
        c = e[i]
        if c == "\\":
            if i + 3 < len(e) and e[i + 1] == "x" and e[i + 2] in "0123456789abcdef" and e[i + 3] in "0123456789abcdef":
                out.append(chr(int(e[i + 2:i + 4], 16)))
                i += 4
                continue
            if i + 1 >= len(e) or e[i + 1] not in table:
                return None
            out.append(table[e[i + 1]])
            i += 2
        elif c == "'":
            return None          # an unescaped quote would end the literal
        else:
            out.append(c)
            i += 1
    return "".join(out)


@harness(
    timeout=(240, 1200), cls="S", tracing="symbolic-through-pydoctor", twin="first", parts=lambda: list(range(SYMLEN + 1)),
    code=["pydoctor.epydoc.markup._pyval_repr._str_escape"],
    bounds={"quick": "symbolic str of <= 2 characters, any code point below the surrogate range", "thorough": "<= 3 characters"},
    outside="lone surrogates (backslashreplace branch, covered concretely in h_string_escape)",
)
def h_str_escape_symbolic(s: str) -> bool:
    """
    pre: len(s) == (PART if PART is not None else 1)
    pre: all(ord(c) < 0xD800 for c in s)
    post: _
    """
    e = _str_escape(s)
    return done(_unescape(e) == s)


SYMLEN = tier(2, 3)


# ------------------------------------------------------------------ K15c wrapping / truncation
@harness(
    timeout=(200, 1200), cls="S", tracing="symbolic-through-pydoctor", twin="first", parts=lambda: list(range(1, WRAP_LL + 1)),
    code=["pydoctor.epydoc.markup._pyval_repr.PyvalColorizer._output"],
    bounds={"quick": "line length 1..4, start column 0..linelen, plain segment of 0..8 characters (symbolic ints)", "thorough": "line length 1..6, segment 0..12"},
    outside="segments with css class 'variable-quote' and links (unbreakable by design)",
)
def h_output_wrap(n: int, start: int) -> bool:
    """
    pre: 0 <= n <= WRAP_N and 0 <= start
    post: _
    """
    linelen = PART if PART is not None else 3
    if start > linelen:
        return True
    c = PyvalColorizer(linelen=linelen, maxlines=0, linebreakok=True)
    st = _ColorizerState()
    st.charpos = start
    s = "x" * n
    c._output(s, None, st)
    text = ""
    cur = start
    for nd in st.result:
        if nd is c.LINEWRAP:
            cur = 0
            continue
        if nd is c.NEWLINE:
            cur = 0
            continue
        t = nd.astext()
        text += t
        cur += len(t)
        if cur > linelen:
            return False
    # every wrap glyph is followed by a new line: the state's column restarts
    return done(text == s)


WRAP_LL = tier(4, 6)
WRAP_N = tier(8, 12)

VALUES = [
    lambda k: ast.parse("[" + ", ".join("item%d" % i for i in range(k)) + "]", mode="eval").body,
    lambda k: ast.Constant(value="w" * k),
    lambda k: ast.Constant(value="\n".join("l%d" % i for i in range(k))),
    lambda k: ast.parse("f(" + ", ".join("k%d=v%d" % (i, i) for i in range(k)) + ")", mode="eval").body,
    lambda k: ast.parse(" + ".join("t%d" % i for i in range(k + 1)), mode="eval").body,
    lambda k: ast.parse("{" + ", ".join("'k%d': %d" % (i, i) for i in range(k)) + "}", mode="eval").body,
    lambda k: ast.parse("[" * k + "x" + "]" * k, mode="eval").body if k else ast.parse("x", mode="eval").body,
    lambda k: list(range(k)),
    lambda k: ast.Constant(value=b"\x00" * k),
    lambda k: tuple("s%d" % i for i in range(k)),
]
NV = len(VALUES)
GLYPH = chr(8629)


def squash(t):
    return "".join(ch for ch in t if not ch.isspace() and ch != GLYPH)


def check_truncation(vk, size, linelen, maxlines, lb):
    val = VALUES[vk](size)
    full = colorize_pyval(val, linelen=0, maxlines=0, linebreakok=lb)
    ftext = "".join(gettext(full.to_node()))
    val = VALUES[vk](size)
    cut = colorize_pyval(val, linelen=linelen, maxlines=maxlines, linebreakok=lb)
    ctext = "".join(gettext(cut.to_node()))
    if full.is_complete is not True:
        # without limits the only reason to stop is a line break while line breaks are not allowed
        if lb:
            note(why="unlimited rendering reported incomplete", vk=vk, size=size)
            return False
    if cut.is_complete:
        if squash(ctext) != squash(ftext):
            note(why="reported complete but text differs from the unlimited rendering", vk=vk, size=size, linelen=linelen, maxlines=maxlines, lb=lb, cut=ctext, full=ftext)
            return False
        return True
    if not ctext.endswith("..."):
        note(why="cut output not marked with an ellipsis", vk=vk, size=size, linelen=linelen, maxlines=maxlines, lb=lb, cut=ctext)
        return False
    body = squash(ctext[:-3])
    if not squash(ftext).startswith(body):
        note(why="cut output is not a prefix of the full rendering", vk=vk, size=size, linelen=linelen, maxlines=maxlines, lb=lb, cut=ctext, full=ftext)
        return False
    return True


@harness(
    parts=lambda: list(range(NV)), timeout=(200, 1200), cls="E", tracing="concrete-after-choice", twin="first",
    code=["PyvalColorizer.colorize", "._trim_result", "._multiline", "._output", "._insert_comma", "ColorizedPyvalRepr.is_complete"],
    bounds={"quick": "10 value kinds (list display, long string, multi-line string, call with keywords, operator chain, dict, nested lists, live list, bytes, live tuple) x size 0..6 x linelen 0..8 x maxlines 0..3 x line breaks allowed or not",
            "thorough": "size 0..8, linelen 0..12, maxlines 0..4"},
    outside="no line-length claim for whole values (quotes and links are unbreakable by design; the ellipsis may exceed a tiny linelen)",
)
def h_truncation(size: int, linelen: int, maxlines: int, lb: bool) -> bool:
    """
    pre: 0 <= size <= T_SIZE and 0 <= linelen <= T_LL and 0 <= maxlines <= T_ML
    post: _
    """
    vk = PART if PART is not None else 0
    size = pick(size, 0, T_SIZE)
    linelen = pick(linelen, 0, T_LL)
    maxlines = pick(maxlines, 0, T_ML)
    lb = pickb(lb)
    with NoTracing():
        ok = check_truncation(vk, size, linelen, maxlines, lb)
    return done(ok)


T_SIZE = tier(6, 8)
T_LL = tier(8, 12)
T_ML = tier(3, 4)
