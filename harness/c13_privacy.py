"""C13 - privacy rules mean what the manual says.

K13a (RX, class S)  for every pattern over a metacharacter-complete alphabet up to length L:
       L(regex that qnmatch.translate(pattern) hands to re) == documented meaning, for names of EVERY length
       (z3 sequence/regex theory).  sat models are replayed on the real qnmatch.qnmatch against an independent
       backtracking matcher.
K13b (XH, class F)  System.privacyClass precedence/defaults for every rule list of <= 3 (4) rules.
"""
import copy
import itertools
import re
import time

from lib.hx import harness, solver_job, pick, pickb, done, tier, PART, note, THOROUGH

PROPERTY = "C13"
LEVEL = "model_checking"
ASSUMPTIONS = [
    "CPython's re._parser gives the meaning of the regular expression text; lib/rx2z3.py (compiled fragment) is validated "
    "on every run against re.match on sample names and on every z3 witness",
    "the documented meaning of a pattern is read as: '**' any run, '*' any run without '.', '?' one character, "
    "'[seq]'/'[!seq]' one character in / not in the literal set (a ']' directly after '[' or '[!' belongs to the set), "
    "an unmatched '[' is a literal; '-' inside brackets is outside the claim (module docstring: hyphens unsupported)",
    "z3 strings range over code points 0..0x2FFFF",
]

ALPHABET = "*?[]!.a_^\\"
L_MAX = tier(4, 6)


# ------------------------------------------------------------------ documented meaning
def tokens(pat):
    """Tokenise a pattern by the documented rules (independent of pydoctor's translate)."""
    i, n, out = 0, len(pat), []
    while i < n:
        c = pat[i]
        i += 1
        if c == "*":
            if i < n and pat[i] == "*":
                out.append(("dstar",))
                i += 1
            else:
                out.append(("star",))
        elif c == "?":
            out.append(("any",))
        elif c == "[":
            j = i
            if j < n and pat[j] == "!":
                j += 1
            if j < n and pat[j] == "]":
                j += 1
            while j < n and pat[j] != "]":
                j += 1
            if j >= n:
                out.append(("lit", "["))
            else:
                stuff = pat[i:j]
                i = j + 1
                neg = stuff[0] == "!"
                if neg:
                    stuff = stuff[1:]
                out.append(("set", stuff, neg))
        else:
            out.append(("lit", c))
    return out


def ref_match(toks, name):
    """Backtracking matcher for the documented meaning (replay oracle)."""
    def go(ti, ni):
        if ti == len(toks):
            return ni == len(name)
        t = toks[ti]
        if t[0] == "lit":
            return ni < len(name) and name[ni] == t[1] and go(ti + 1, ni + 1)
        if t[0] == "any":
            return ni < len(name) and go(ti + 1, ni + 1)
        if t[0] == "set":
            return ni < len(name) and ((name[ni] in t[1]) != t[2]) and go(ti + 1, ni + 1)
        k = ni
        while True:
            if go(ti + 1, k):
                return True
            if k >= len(name) or (t[0] == "star" and name[k] == "."):
                return False
            k += 1
    return go(0, 0)


def spec_regex(toks):
    import z3
    from lib import rx2z3 as R
    nodot = R.not_chars(R.lit("."))
    out = []
    for t in toks:
        if t[0] == "dstar":
            out.append(z3.Star(R.ANY))
        elif t[0] == "star":
            out.append(z3.Star(nodot))
        elif t[0] == "any":
            out.append(R.ANY)
        elif t[0] == "lit":
            out.append(R.lit(t[1]))
        else:
            r = R.union(R.lit(ch) for ch in t[1])
            out.append(R.not_chars(r) if t[2] else r)
    return R.concat(out)


SAMPLE_NAMES = ["", "a", ".", "a.a", "_", "a.b", "[", "]", "!", "^", "\\", "\n", "a\n", "*", "?", "aa", "a._a", "a.a.a", "[a]", " "]


def _first_chars():
    if THOROUGH:
        return [a + b for a in ALPHABET for b in ALPHABET]
    return list(ALPHABET)


@solver_job(
    parts=lambda: ["<short>"] + _first_chars(), timeout=(600, 3000), cls="S",
    code=["pydoctor.qnmatch.translate (executed per pattern)", "regex text returned by translate, via re._parser -> z3 ReSort"],
    bounds={"quick": "all patterns of length <= 4 over the 10-character alphabet * ? [ ] ! . a _ ^ \\ (11 111 patterns); names: unbounded length, all code points",
            "thorough": "all patterns of length <= 6 over the same alphabet (1 111 111 patterns); names unbounded"},
    outside="patterns longer than the bound; '-' ranges inside brackets; characters of the pattern outside the alphabet (treated by translate through re.escape only)",
)
def k13a_translate_equiv(part):
    import z3
    from pydoctor import qnmatch
    from lib import rx2z3 as R
    prefix = part if part is not None else "<short>"
    plen = 2 if THOROUGH else 1
    if prefix == "<short>":
        pats = ["".join(t) for l in range(0, plen) for t in itertools.product(ALPHABET, repeat=l)]
    else:
        pats = [prefix + "".join(t) for l in range(0, L_MAX - plen + 1) for t in itertools.product(ALPHABET, repeat=l)]
    S = R.Session(timeout_ms=30000)
    res = dict(queries=0, unsat=0, nontrivial=0, unknown=0, unreplayed=0, violations=[], samples=[], validated=0)
    for k, pat in enumerate(pats):
        toks = tokens(pat)
        try:
            rx = qnmatch.translate(pat)
            creal = re.compile(rx)
        except Exception as e:
            res["violations"].append({"witness": {"pattern": pat}, "what": "translate/re.compile raised %s: %s" % (type(e).__name__, e)})
            continue
        try:
            impl = R.compile_rx(rx)
        except NotImplementedError as e:
            res["unknown"] += 1
            continue
        sp = spec_regex(toks)
        # translator validation on a sample: z3's reading of the compiled regex == re.match on concrete names
        if k % 37 == 0:
            for nm in SAMPLE_NAMES:
                zr = z3.simplify(z3.InRe(z3.StringVal(nm), impl))
                if z3.is_true(zr) != (creal.match(nm) is not None):
                    return {"error": "rx2z3 disagrees with re on pattern %r name %r (z3 %s)" % (pat, nm, zr)}
                res["validated"] += 1
        r, w = S.differ(impl, sp)
        res["queries"] += 1
        if r == "unsat":
            res["unsat"] += 1
            if any(t[0] != "lit" for t in toks):
                res["nontrivial"] += 1      # the pattern's language is not a single literal string
            if not impl.eq(sp):
                res["structurally_different"] = res.get("structurally_different", 0) + 1
        elif r == "sat":
            real = qnmatch.qnmatch(w, pat)
            want = ref_match(toks, w)
            if real != want:
                res["violations"].append({"witness": {"pattern": pat, "name": w}, "qnmatch": real, "documented": want, "regex": rx})
                if len(res["violations"]) > 5:
                    break
            else:
                res["unreplayed"] += 1
        else:
            res["unknown"] += 1
        if len(res["samples"]) < 3 and len(pat) == L_MAX:
            res["samples"].append({"pattern": pat, "regex": rx, "verdict": r})
    res["solver_time_s"] = round(S.time, 3)
    return res


# ------------------------------------------------------------------ K13b precedence and defaults
from pydoctor import model
from pydoctor.options import Options
from pydoctor.utils import parse_privacy_tuple
from crosshair.tracers import NoTracing

OPTS = Options.defaults()
OPTS.verbosity = -3

SHAPES = ["x", "_x", "__x__", "__x", "_x__", "x_", "__init__", "_"]
SHAPE_DEFAULT = {"x": "PUBLIC", "_x": "PRIVATE", "__x__": "PUBLIC", "__x": "PRIVATE", "_x__": "PRIVATE", "x_": "PUBLIC",
                 "__init__": "PUBLIC", "_": "PRIVATE"}
PRIVS = ["HIDDEN", "PRIVATE", "PUBLIC"]
# rule kinds against the object mod.<name>: (pattern builder, is exact, matches)
KINDS = [
    (lambda fn: fn, True, True),              # exact qualified name
    (lambda fn: "**", False, True),           # pattern matching everything
    (lambda fn: "mod.*", False, True),        # one-level star
    (lambda fn: "*", False, False),           # '*' does not cross the dot
    (lambda fn: "other.**", False, False),    # unrelated
    (lambda fn: "mod.?" + fn[4:], False, False),  # one char too many
    (lambda fn: "mod?" + fn[4:], False, True),    # '?' is any one character, the dot included
    (lambda fn: "m[!x]d[.]" + fn[4:], False, True),   # brackets, one of them listing the dot
]
NKINDS = len(KINDS)
STYLES = ["%s:%s", " %s : %s ", "%s:%s"]
MAXR = tier(3, 3)      # (4 rules x 8 pattern kinds x the four-object tree does not finish within the thorough budget)


def expected(shape, rules):
    fn = "mod." + shape
    for priv, kind in reversed(rules):
        if KINDS[kind][1]:
            return priv
    for priv, kind in reversed(rules):
        if KINDS[kind][2]:
            return priv
    return SHAPE_DEFAULT[shape]


def expected_for(name, default, rules):
    """the manual's reading for any object: an exact rule wins over patterns, among rules of one sort the LAST given wins, otherwise the default"""
    for priv, pat in reversed(rules):
        if pat == name:
            return priv
    for priv, pat in reversed(rules):
        if ref_match(tokens(pat), name):
            return priv
    return default


def run_privacy(shape, rules, style):
    fn = "mod." + shape
    opts = copy.copy(OPTS)
    strings = []
    for priv, kind in rules:
        pn = priv.lower() if style != 2 else priv.capitalize()
        strings.append(STYLES[style] % (pn, KINDS[kind][0](fn)))
    # the rule strings take the way they take from the command line / a config file: through the converter of Options.privacy
    from pydoctor.options import _convert_privacy
    opts.privacy = _convert_privacy(strings)
    s = model.System(opts)
    mod = model.Module(s, "mod")
    s.addObject(mod)
    f = model.Function(s, shape, mod)
    s.addObject(f)
    f.kind = model.DocumentableKind.FUNCTION
    mod.kind = model.DocumentableKind.MODULE
    # two more levels: a class in the module and a method of the same name shape in it
    K = model.Class(s, "K", mod)
    s.addObject(K)
    K.kind = model.DocumentableKind.CLASS
    meth = model.Function(s, shape, K)
    s.addObject(meth)
    meth.kind = model.DocumentableKind.METHOD
    want = expected(shape, rules)
    got = s.privacyClass(f).name
    again = f.privacyClass.name
    if got != want or again != got:
        note(name=fn, rules=[(p, KINDS[k][0](fn)) for p, k in rules], got=got, again=again, want=want)
        return False
    # helpers derived from it
    if f.isPrivate != (want != "PUBLIC"):
        note(why="isPrivate", name=fn, want=want)
        return False
    # every object of the small tree, by the manual's reading computed with the independent matcher; and visibility: an object is
    # visible exactly when neither it nor any of its ancestors is hidden
    plain = [(p, KINDS[k][0](fn)) for p, k in rules]
    objs = [(mod, "mod", "PUBLIC", []), (K, "mod.K", "PUBLIC", [mod]), (f, fn, SHAPE_DEFAULT[shape], [mod]), (meth, "mod.K." + shape, SHAPE_DEFAULT[shape], [mod, K])]
    exp = {}
    for o, name, default, _anc in objs:
        exp[name] = expected_for(name, default, plain)
        if o.privacyClass.name != exp[name]:
            note(why="privacy differs from the manual's reading", name=name, rules=plain, got=o.privacyClass.name, want=exp[name])
            return False
    for o, name, _d, anc in objs:
        want_visible = exp[name] != "HIDDEN" and all(exp[a.fullName()] != "HIDDEN" for a in anc)
        if o.isVisible != want_visible:
            note(why="visibility: an object is visible exactly when neither it nor an ancestor is hidden", name=name, rules=plain, got=o.isVisible, want=want_visible)
            return False
    return True


@harness(
    parts=lambda: [[s, k] for s in range(len(SHAPES) if THOROUGH else 5) for k in range(-1, len(KINDS))],
    timeout=(200, 1800), cls="F", tracing="concrete-after-choice", twin="first",
    code=["pydoctor.model.System.privacyClass", "pydoctor.model.Documentable.privacyClass/isPrivate/isVisible", "pydoctor.options._convert_privacy", "pydoctor.utils.parse_privacy_tuple", "pydoctor.qnmatch.qnmatch (concrete patterns)"],
    bounds={"quick": "rule lists of <= 3 rules; each rule: privacy in {HIDDEN, PRIVATE, PUBLIC} x 8 pattern kinds (exact name, '**', 'mod.*', '*', 'other.**', one-char-too-long '?', '?' standing for the dot, brackets incl. '[.]'); 5 name shapes (x, _x, __x__, __x, _x__), for a function in the module, a class and a method of that class (privacy of all four objects by an independent matcher; visibility through hidden ancestors); 3 spellings of the rule string (chosen by the list)",
            "thorough": "same with 8 name shapes (adds _x__, x_, __init__, _)"},
    outside="rule lists longer than the bound; cache behaviour across changes of the option list (cache is per name by design)",
)
def h_privacy_rules(n: int, p1: int, k1: int, p2: int, k2: int, p3: int, k3: int, p0: int) -> bool:
    """
    pre: 0 <= n <= MAXR - 1
    pre: 0 <= p0 <= 2 and 0 <= p1 <= 2 and 0 <= p2 <= 2 and 0 <= p3 <= 2
    pre: 0 <= k1 < NKINDS and 0 <= k2 < NKINDS and 0 <= k3 < NKINDS
    pre: (n >= 1 or (p1 == 0 and k1 == 0)) and (n >= 2 or (p2 == 0 and k2 == 0)) and (n >= 3 or (p3 == 0 and k3 == 0))
    post: _
    """
    sh, k0 = PART if PART is not None else [0, 0]
    n = pick(n, 0, MAXR - 1)
    rules = []
    if k0 >= 0:
        rules.append((PRIVS[pick(p0, 0, 2)], k0))
    elif n > 0 or p0 != 0:
        return True        # the empty rule list is the k0 == -1, n == 0, p0 == 0 case only
    ps = [pick(p1, 0, 2), pick(p2, 0, 2), pick(p3, 0, 2)]
    ks = [pick(k1, 0, NKINDS - 1), pick(k2, 0, NKINDS - 1), pick(k3, 0, NKINDS - 1)]
    for i in range(n):
        rules.append((PRIVS[ps[i]], ks[i]))
    style = (n + sum(ps[:n]) + sum(ks[:n])) % 3      # spelling of the rule strings varies with the list
    with NoTracing():
        ok = run_privacy(SHAPES[sh], rules, style)
    return done(ok)


# ------------------------------------------------------------------ K13c the code around the regular expression
# K13a decides the regular expression translate() emits.  qnmatch() itself - caching, any pre-checks, how the compiled
# pattern is applied - is decided here: the `re` module seen by pydoctor.qnmatch is replaced by a stub whose compiled
# objects answer with the documented meaning of the pattern (environment stub at the library boundary), the NAME is a
# symbolic string, and qnmatch(name, pattern) must equal the documented meaning for every name.
import re as _real_re
from pydoctor import qnmatch as _qn

W_ALPHA = "*?[]!.a"
W_LEN = tier(3, 4)
W_PATTERNS = ["".join(t) for l in range(0, W_LEN + 1) for t in itertools.product(W_ALPHA, repeat=l)]
_RX2PAT = {}
for _p in W_PATTERNS:
    try:
        _RX2PAT.setdefault(_qn.translate(_p), _p)
    except Exception:
        pass


class _Matcher:
    def __init__(self, toks):
        self.toks = toks

    def match(self, name):
        return self if ref_match(self.toks, name) else None

    fullmatch = match


class _ReStub:
    escape = staticmethod(_real_re.escape)
    DOTALL = _real_re.DOTALL
    error = _real_re.error

    @staticmethod
    def compile(rx, flags=0):
        if rx not in _RX2PAT:
            raise KeyError("regex not produced by translate() for a pattern of this partition")
        return _Matcher(tokens(_RX2PAT[rx]))


NAME_LEN = tier(4, 5)


@harness(
    parts=lambda: list(range(0, len(W_PATTERNS), 1)), timeout=(120, 900), cls="S", tracing="symbolic-through-pydoctor", twin="first",
    code=["pydoctor.qnmatch.qnmatch", "pydoctor.qnmatch._compile_pattern (lru_cache)", "pydoctor.qnmatch.translate (executed)"],
    bounds={"quick": "every pattern of length <= 3 over {* ? [ ] ! . a} (400 patterns) x symbolic name of <= 4 characters (any characters)",
            "thorough": "patterns of length <= 4 (2801) x names of <= 5 characters"},
    stubs=["the `re` module as seen by pydoctor.qnmatch: compile(regex) returns a matcher implementing the documented meaning of the pattern the regex was translated from (K13a decides that the real regex has that meaning)"],
    outside="names longer than the bound for the wrapper logic (the regex itself is decided for all lengths in K13a)",
)
def h_qnmatch_wrapper(name: str) -> bool:
    """
    pre: len(name) <= NAME_LEN
    post: _
    """
    pat = W_PATTERNS[PART if PART is not None else 5]
    toks = tokens(pat)
    saved = _qn.re
    _qn.re = _ReStub
    try:
        if hasattr(_qn._compile_pattern, "cache_clear"):
            _qn._compile_pattern.cache_clear()
        got = _qn.qnmatch(name, pat)
    finally:
        _qn.re = saved
        if hasattr(_qn._compile_pattern, "cache_clear"):
            _qn._compile_pattern.cache_clear()
    want = ref_match(toks, name)
    return done(bool(got) == want)
