"""C11 - every internal link leads to a page and anchor that exist.

Class E: the PROJECT (template shapes: inheritance across modules, re-exports, duplicate definitions, nested classes,
consumer cross-references in docstrings and annotations) and the CONFIGURATION (privacy rule list from a menu, theme) are the
bounded structures chosen by the solver; each is rendered by the real TemplateWriter into a scratch directory and every page
is parsed: every relative href/src must resolve to a written file and, with a fragment, to an id/name in that file; every
visible object must have its page / anchor; url fields of the search documents likewise.
"""
from lib.hx import harness, pick, pickb, done, tier, PART, note, known, THOROUGH, sample

PROPERTY = "C11"
LEVEL = "exploration"
ASSUMPTIONS = [
    "projects are the template shapes of lib/templates.py; privacy rule lists come from a menu of 8; themes classic (quick) + base, readthedocs (thorough)",
    "pages are parsed with the standard html.parser; JavaScript-built links (search results) and intersphinx links are outside",
    "CrossHair runs with file-system events unblocked; output goes to a mkdtemp directory removed on every path",
]

import copy

from crosshair.tracers import NoTracing
from pydoctor import model
from lib import templates as T
from lib import projects as PJ
from lib import crawl

D = T.DIMS
H, PV, PU = model.PrivacyClass.HIDDEN, model.PrivacyClass.PRIVATE, model.PrivacyClass.PUBLIC
PRIVACY = [
    [],
    [(H, "pkg._impl.Y")],
    [(H, "pkg._impl.X")],
    [(H, "pkg._impl")],
    [(H, "pkg.user")],
    [(PV, "pkg.*")],
    [(H, "**.m1")],
    [(PU, "**")],
    [(PV, "**.X"), (H, "pkg.user.*")],
]
NPRIV = len(PRIVACY)
THEMES = ["classic", "base", "readthedocs"]


def check_render(kw, pi, theme, samename=False):
    sources, exporter, newname = T.gen(samename=samename, **kw)
    sample(shape=kw, privacy=[(p.name, m) for p, m in PRIVACY[pi]], theme=theme, sources={k: v[0] for k, v in sources.items()})
    opts = copy.copy(PJ.OPTS)
    opts.privacy = list(PRIVACY[pi])
    s = PJ.build(sources, opts=opts)
    out = crawl.render(s, theme)
    try:
        dead = crawl.dead_links(out)
        ctx = dict(shape=kw, privacy=[(p.name, m) for p, m in PRIVACY[pi]], theme=theme)
        if dead:
            note(why="link to a file or anchor that does not exist", problems=dead[:6], **ctx)
            return False
        visible = {o.fullName() for o in s.allobjects.values() if o.isVisible}
        mp = crawl.missing_pages(out, s, visible)
        if mp:
            note(why="visible object without its page / anchor", problems=mp[:6], **ctx)
            return False
        return True
    finally:
        out.close()


UNBLOCK = ["open", "os.mkdir", "os.symlink", "os.remove", "os.rmdir", "shutil.rmtree", "os.scandir", "os.listdir", "os.rename", "os.unlink", "shutil.copyfile", "shutil.copytree", "os.chmod", "os.utime", "shutil.copystat", "shutil.copymode"]


def _parts():
    return [[r, c, d] for r in range(len(D["reexp"])) for c in range(len(D["consumer"])) for d in range(len(D["dup"]))]


@harness(
    parts=_parts, timeout=(300, 3000), cls="E", tracing="concrete-after-choice", twin="first", unblock=UNBLOCK,
    code=["pydoctor.model.Documentable.url/page_object", "pydoctor.linker.taglink/_EpydocLinker", "pydoctor.templatewriter.writer.TemplateWriter.writeSummaryPages/writeIndividualFiles/_writeDocsFor",
          "pydoctor.templatewriter.pages.*", "summary.*", "pages.sidebar.*", "search.*", "theme templates"],
    bounds={"quick": "template shapes (re-export form x consumer form x duplicate form x kind x nested class; origin __all__ absent, no local definition, no cycle) x 9 privacy rule lists x classic theme; plus, for 2 privacy lists, a variant with a sub-module named like the root package",
            "thorough": "adds origin __all__ (3) and 3 themes"},
    outside="real packages, custom template directories, intersphinx links, links built by JavaScript",
)
def h_links(xkind: int, nested: bool, pi: int, origin_all: int, th: int, samename: bool) -> bool:
    """
    pre: 0 <= xkind <= 1 and 0 <= pi < NPRIV and 0 <= origin_all <= 2 and 0 <= th <= 2
    pre: FULL or (origin_all == 0 and th == 0)
    pre: FULL or not samename or (pi <= 1 and not nested)
    post: _
    """
    ri, ci, di = PART if PART is not None else [1, 1, 0]
    kw = dict(xkind=D["xkind"][pick(xkind, 0, 1)], dup=D["dup"][di], nested=pickb(nested), reexp=D["reexp"][ri],
              origin_all=D["origin_all"][pick(origin_all, 0, 2)], local_def="none", consumer=D["consumer"][ci], cycle=False)
    pi = pick(pi, 0, NPRIV - 1)
    th = pick(th, 0, 2)
    with NoTracing():
        ok = check_render(kw, pi, THEMES[th], pickb(samename))
    return done(ok)


FULL = tier(False, True)
