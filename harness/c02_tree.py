"""C02 - the object model is a coherent tree with a consistent name registry.

Class E (bounded-exhaustive exploration): the solver enumerates every project shape of the template space
(lib/templates.py: definition kind x duplicate definitions x nested class x re-export form x origin __all__ x a local
definition of the exported name before/after the import x consumer form x import cycle x zope interfaces x field-documented
attribute x a sub-module named like the root package); the real System.process() runs on each, and the invariants I1..I8 of the statement are evaluated on the result.
"""
from lib.hx import harness, pick, pickb, done, tier, PART, note, known, sample

PROPERTY = "C02"
LEVEL = "exploration"
ASSUMPTIONS = [
    "projects are those expressible in the template (<= 4 modules, <= 2 definitions of a name); exhaustive inside it",
    "invariants are evaluated on the final System after process() (allobjects, rootobjects, contents/parent, kind, mro, subclasses, implements, url)",
]

from crosshair.tracers import NoTracing
from lib import templates as T
from lib import projects as PJ

D = T.DIMS


def check_shape(kw, zope, fielddoc, samename=False):
    # (the same-named sub-module variant also carries a sub-module re-exported by a plain module)
    sources, exporter, newname = T.gen(zope=zope, fielddoc=fielddoc, samename=samename, submod=samename, **kw)
    sample(shape=kw, sources={k: v[0] for k, v in sources.items()})
    try:
        s = PJ.build(sources)
    except Exception as e:
        note(why="analysis raised", shape=kw, exc=repr(e))
        return False
    bad = T.invariants(s)
    if not bad:
        return True
    if all(b[0].startswith("I3 registered object unreachable") for b in bad) and kw["local_def"] == "before":
        key = "C02:reexport-onto-existing-name-orphans-old-members"
        if known(key):
            return True
        note(why="model invariant violated", key=key, violated=bad[:4], shape=kw, sources=sources)
        return False
    note(why="model invariant violated", violated=bad[:4], shape=kw, sources=sources)
    return False


def _parts():
    return [[a, b, c] for a in range(len(D["reexp"])) for b in range(len(D["dup"])) for c in range(len(D["consumer"]))]


@harness(
    parts=_parts, timeout=(240, 1800), cls="E", tracing="concrete-after-choice", twin="first",
    code=["pydoctor.model.System.addObject/handleDuplicate/_remove/_addUnprocessedModule", "pydoctor.model.Documentable.reparent/_handle_reparenting_pre/_handle_reparenting_post",
          "pydoctor.astbuilder.ModuleVistor._handleReExport", "pydoctor.model.defaultPostProcess/compute_mro", "pydoctor.extensions.zopeinterface", "pydoctor.model.System.process"],
    bounds={"quick": "full product of the 8 template dimensions (6 240 shapes) with zope interfaces, field-documented attribute and a sub-module named like the root package off/on tied to the shape (2 of the 8 combinations per shape)",
            "thorough": "full product x zope on/off x field-documented attribute on/off x same-named sub-module on/off (49 920 shapes)"},
    outside="projects not expressible in the template; C modules / introspection; --prepend-package",
)
def h_model_invariants(xkind: int, nested: bool, origin_all: int, local_def: int, cycle: bool, zope: bool, fielddoc: bool, samename: bool) -> bool:
    """
    pre: 0 <= xkind <= 1 and 0 <= origin_all <= 2 and 0 <= local_def <= 2
    pre: FULL or (zope == nested and fielddoc == cycle and samename == cycle)
    post: _
    """
    ri, di, ci = PART if PART is not None else [1, 0, 1]
    kw = dict(xkind=D["xkind"][pick(xkind, 0, 1)], dup=D["dup"][di], nested=pickb(nested), reexp=D["reexp"][ri],
              origin_all=D["origin_all"][pick(origin_all, 0, 2)], local_def=D["local_def"][pick(local_def, 0, 2)],
              consumer=D["consumer"][ci], cycle=pickb(cycle))
    zope, fielddoc, samename = pickb(zope), pickb(fielddoc), pickb(samename)
    if not T.valid(kw):
        return True
    with NoTracing():
        ok = check_shape(kw, zope, fielddoc, samename)
    return done(ok)


FULL = tier(False, True)
