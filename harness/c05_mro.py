"""C05 - inheritance is computed as Python computes it.

K05a (S)  mro.mro / mro._merge on symbolic class ids vs a reference C3 evaluated on the same symbolic
          input (the reference is validated natively against type() at import).
K05b (E/F) the model path: source text -> System -> Class.mro()/find()/docsources()/get_docstring,
          'mro' warnings, vs CPython executing the same text (type.__mro__, attribute lookup).
"""
import itertools

from lib.hx import harness, pick, pickb, done, tier, PART, note, sample

PROPERTY = "C05"
LEVEL = "model_checking"
ASSUMPTIONS = [
    "reference C3 (20 lines, Python 2.3 MRO paper) validated at import against type() on all 160 hierarchies of <=4 classes",
    "CPython 3.12.1 is the oracle for __mro__, attribute lookup and __doc__",
    "classes are named A..E in one module; bases are earlier classes only (no forward references, no metaclasses)",
]

from pydoctor import mro as _mro
from pydoctor import model
from pydoctor.options import Options

OPTS = Options.defaults()
OPTS.verbosity = -3

from crosshair.tracers import NoTracing


# ---------------------------------------------------------------- reference C3
def ref_merge(seqs):
    res = []
    seqs = [list(s) for s in seqs]
    while True:
        seqs = [s for s in seqs if s]
        if not seqs:
            return res
        for s in seqs:
            cand = s[0]
            if not any(cand in t[1:] for t in seqs):
                break
        else:
            raise ValueError("inconsistent")
        res.append(cand)
        for s in seqs:
            if s[0] == cand:
                del s[0]


def ref_mro(c, bases):
    return [c] + ref_merge([ref_mro(b, bases) for b in bases[c]] + [list(bases[c])])


def ordered_subsets(items, maxlen=None):
    out = []
    for r in range(len(items) + 1):
        if maxlen is not None and r > maxlen:
            break
        for p in itertools.permutations(items, r):
            out.append(list(p))
    return out


def _validate_reference():
    n = 0
    for b2 in ordered_subsets([1]):
        for b3 in ordered_subsets([1, 2]):
            for b4 in ordered_subsets([1, 2, 3]):
                bases = {1: [], 2: b2, 3: b3, 4: b4}
                classes = {}
                for c in (1, 2, 3, 4):
                    try:
                        want = ref_mro(c, bases)
                    except ValueError:
                        want = None
                    try:
                        if any(b not in classes for b in bases[c]):
                            raise TypeError
                        classes[c] = type("K%d" % c, tuple(classes[b] for b in bases[c]), {})
                        got = [int(k.__name__[1:]) for k in classes[c].__mro__[:-1]]
                    except TypeError:
                        got = None
                    if want is not None and any(b not in classes for b in bases[c]):
                        want = None  # a base was rejected by Python
                    assert got == want, (bases, c, got, want)
                    n += 1
    return n


REF_VALIDATED = _validate_reference()

# ---------------------------------------------------------------- K05a
# Partition: the ordered base list of the LAST class (concrete); earlier classes symbolic.
NCLS = tier(4, 5)
_LAST_BASES = ordered_subsets(list(range(1, NCLS)))   # 16 (n=4) / 65 (n=5)


@harness(
    parts={"quick": list(range(len(ordered_subsets([1, 2, 3])))), "thorough": list(range(len(ordered_subsets([1, 2, 3, 4]))))},
    timeout=(150, 1500), cls="S", tracing="symbolic-through-pydoctor", twin="first",
    code=["pydoctor.mro.mro", "pydoctor.mro._merge", "pydoctor.mro.DependencyList", "pydoctor.mro.Dependency"],
    bounds={"quick": "4 classes, every ordered choice of earlier classes as bases (160 hierarchies); class ids symbolic ints",
            "thorough": "5 classes, every ordered choice of bases (10 400 hierarchies), 65 partitions by the last class's base list"},
    outside="more than 5 classes; unresolved (string) bases in the merge; metaclasses",
)
def h_mro_kernel(n2: int, a2: int, n3: int, a3: int, b3: int, n4: int, a4: int, b4: int, c4: int) -> bool:
    """
    pre: 0 <= n2 <= 1 and a2 == 1
    pre: 0 <= n3 <= 2 and 1 <= a3 <= 2 and 1 <= b3 <= 2 and a3 != b3
    pre: 0 <= n4 <= 3 and 1 <= a4 <= 3 and 1 <= b4 <= 3 and 1 <= c4 <= 3 and a4 != b4 and a4 != c4 and b4 != c4
    pre: NCLS == 5 or n4 == 0
    post: _
    """
    last = _LAST_BASES[PART if PART is not None else 0]
    n2 = pick(n2, 0, 1)
    n3 = pick(n3, 0, 2)
    n4 = pick(n4, 0, 3)
    if NCLS == 5:
        bases = {1: [], 2: [a2][:n2], 3: [a3, b3][:n3], 4: [a4, b4, c4][:n4], 5: list(last)}
    else:
        bases = {1: [], 2: [a2][:n2], 3: [a3, b3][:n3], 4: list(last)}
    top = NCLS
    try:
        want = ref_mro(top, bases)
    except ValueError:
        want = None
    try:
        got = _mro.mro(top, lambda c: bases[c])
    except ValueError:
        got = None
    ok = got == want
    if not ok:
        note(bases=repr(bases), got=repr(got), want=repr(want))
    return done(ok)


# ---------------------------------------------------------------- K05b
NAMES = "ABCDE"
_SUBS = {i: ordered_subsets(list(range(i))) for i in range(5)}  # bases of class i drawn from 0..i-1


def gen_source(blists, defmask, docmask, generic):
    """generic: root classes derive from Generic[T], every base is written subscripted (`B[T]`, so every class
    stays generic at run time) and the last class names its first base `B[int]`."""
    src = "from typing import Generic, TypeVar\nT = TypeVar('T')\n" if generic else ""
    for i, bs in enumerate(blists):
        bl = [NAMES[b] for b in bs]
        if generic:
            bl = [b + "[T]" for b in bl]
            if i == len(blists) - 1 and bl:
                bl[0] = bl[0][:-3] + "[int]"
        if generic and not bl:
            bl = ["Generic[T]"]
        hdr = "class %s%s:\n" % (NAMES[i], "(" + ", ".join(bl) + ")" if bl else "")
        if (defmask >> i) & 1:
            doc = "\n        '''doc %s'''" % NAMES[i] if (docmask >> i) & 1 else ""
            body = "    def m(self):%s\n        pass\n" % doc
        else:
            body = "    pass\n"
        src += hdr + body
    return src


_TL = []


def _inherited_tables(c):
    """{member name: name of the class it is shown as inherited from} as rendered by ClassPage.baseTables"""
    import importlib.resources as ir
    from twisted.web.template import tags, slot
    from pydoctor.templatewriter import TemplateLookup
    from pydoctor.templatewriter.pages import ClassPage
    from pydoctor.stanutils import flatten
    from lib import crawl
    if not _TL:
        _TL.append(TemplateLookup(ir.files("pydoctor.themes") / "base"))
    page = ClassPage(c, _TL[0])
    out = {}
    for t in page.baseTables(None, tags.div(tags.span(class_="basename")(slot("baseName")), slot("baseTable"))):
        root = crawl.parse_html(flatten(t))
        head = root.first(lambda e: e.tag == "span" and "basename" in e.cls())
        source = head.alltext().split(" (via")[0].strip() if head is not None else "?"
        for tr in root.walk():
            if tr.tag == "tr":
                a = tr.first(lambda e: e.tag == "a" and "href" in e.attrs)
                if a is not None:
                    out[a.alltext().strip()] = source
    return out


def check_model(blists, defmask, docmask, generic=False, hidden=None):
    n = len(blists)
    src = gen_source(blists, defmask, docmask, generic)
    sample(source=src)
    ns = {}
    pyerr = None
    try:
        exec(compile(src, "<h>", "exec"), ns)
    except TypeError as e:
        pyerr = e
    opts = OPTS
    if hidden is not None:
        # a privacy rule hides one class's own definition of m: it must still mask the definitions further along the MRO (seed C05-7)
        import copy
        opts = copy.copy(OPTS)
        opts.privacy = [(model.PrivacyClass.HIDDEN, "h.%s.m" % hidden)]
    s = model.System(opts)
    msgs = []
    s.msg = lambda section, m, thresh=0, **kw: msgs.append((section, m))
    b = s.systemBuilder(s)
    b.addModuleString(src, "h")
    b.buildModules()
    mro_msgs = [m for sec, m in msgs if sec == "mro"]
    if pyerr is not None:
        bad = next(nm for nm in NAMES[:n] if nm not in ns)
        c = s.allobjects.get("h." + bad)
        if c is None:
            note(why="inconsistent class not documented", src=src)
            return False
        if not mro_msgs:
            note(why="inconsistent hierarchy not reported", src=src, pyerr=str(pyerr))
            return False
        m = c.mro()
        if not m or m[0] is not c:
            note(why="fallback mro does not start with the class", src=src)
            return False
        # classes before the rejected one are judged as usual
        names = [nm for nm in NAMES[:n] if nm in ns and NAMES.index(nm) < NAMES.index(bad)]
    else:
        if mro_msgs:
            note(why="spurious mro warning", src=src, msgs=mro_msgs)
            return False
        names = list(NAMES[:n])
    for nm in names:
        c = s.allobjects["h." + nm]
        pc = ns[nm]
        got = [x.name for x in c.mro()]
        want = [k.__name__ for k in pc.__mro__ if k.__name__ in NAMES and len(k.__name__) == 1]
        if got != want:
            note(why="mro differs", src=src, cls=nm, got=got, want=want)
            return False
        f = c.find("m")
        wantdef = next((k.__name__ for k in pc.__mro__ if "m" in vars(k)), None)
        if (f.parent.name if f is not None else None) != wantdef:
            note(why="find() attributes m to the wrong class", src=src, cls=nm, got=f and f.parent.name, want=wantdef)
            return False
        # what the class page shows as inherited: member m, when the class does not define it, sits in the table
        # "Inherited from <the first class along Python's MRO that defines it>"
        inherited_shown = _inherited_tables(c)
        wantinh = {}
        if "m" not in vars(pc) and wantdef is not None and wantdef != hidden:
            wantinh = {"m": wantdef}          # (a hidden definition is not listed, and nothing behind it is shown in its place)
        if pyerr is None and inherited_shown != wantinh:
            note(why="the 'Inherited from' tables of the class page differ from attribute lookup along the MRO", src=src, cls=nm, got=inherited_shown, want=wantinh)
            return False
        if "m" in c.contents:
            o = c.contents["m"]
            # docsources must follow the linearisation
            ds = [x.parent.name for x in o.docsources()]
            wantds = [k.__name__ for k in pc.__mro__ if "m" in vars(k)]
            if ds != wantds:
                note(why="docsources order", src=src, cls=nm, got=ds, want=wantds)
                return False
            d, _src = model.get_docstring(o)
            wantdoc = next((vars(k)["m"].__doc__ for k in pc.__mro__ if "m" in vars(k) and vars(k)["m"].__doc__ is not None), None)
            if d != wantdoc:
                note(why="inherited docstring", src=src, cls=nm, got=d, want=wantdoc)
                return False
            # what the class page says: "overrides <the next definition along the linearisation>", "overridden in <subclasses that redefine it>"
            from pydoctor.templatewriter.pages import get_override_info
            from pydoctor.stanutils import flatten_text
            notes_ = [flatten_text(t) for t in get_override_info(c, "m")]
            over = [t[len("overrides "):] for t in notes_ if t.startswith("overrides ")]
            wantover = next((["h.%s.m" % k.__name__] for k in pc.__mro__[1:] if "m" in vars(k)), [])
            if over != wantover:
                note(why="the 'overrides' note on the class page names another definition than attribute lookup along the MRO reaches next", src=src, cls=nm, got=over, want=wantover)
                return False
            inn = [t[len("overridden in "):] for t in notes_ if t.startswith("overridden in ")]
            got_in = sorted(x.strip() for x in inn[0].split(",")) if inn else []
            # subclasses (in the documented hierarchy) that define m themselves and for which this class's m is the next one along their MRO
            want_in = sorted("h." + k for k in names if k != nm and ns[k] is not pc and issubclass(ns[k], pc) and "m" in vars(ns[k]))
            if pyerr is None and not set(got_in) <= set(want_in):
                note(why="'overridden in' lists a class that does not override the member", src=src, cls=nm, got=got_in, want_subset_of=want_in)
                return False
    return True


def _parts_model():
    # quick: 4 classes -> partition by (s3 index); thorough: 5 classes on last-class partitions
    return list(range(len(_SUBS[3]))) if NCLS == 4 else list(range(len(_SUBS[4])))


@harness(
    parts=_parts_model, timeout=(200, 2400), cls="E", tracing="concrete-after-choice", twin="first",
    code=["pydoctor.model.compute_mro", "pydoctor.model.Class._init_mro", "pydoctor.model.Class.mro", "pydoctor.model.Class.find",
          "pydoctor.model.Inheritable.docsources", "pydoctor.model.get_docstring", "pydoctor.astbuilder.ModuleVistor.visit_ClassDef",
          "pydoctor.mro.mro", "pydoctor.templatewriter.pages.get_override_info", "pydoctor.templatewriter.util.overriding_subclasses", "pydoctor.templatewriter.pages.ClassPage.baseTables/baseName", "pydoctor.templatewriter.util.class_members"],
    bounds={"quick": "4 classes: all 160 ordered-base hierarchies x member-definition mask (4 bits) x docstring mask restricted to defmask x generic-subscripted base or not; in two thirds of the layouts a --privacy rule hides the second or third class's own definition of the member (it must keep masking the definitions behind it in the Inherited-from tables)",
            "thorough": "5 classes: all 10 400 hierarchies x 6 member/docstring placements x generic or not"},
    outside="bases outside the module, forward references, metaclasses, >5 classes",
)
def h_mro_model(s1: int, s2: int, s3: int, defmask: int, docsel: int, generic: bool) -> bool:
    """
    pre: 0 <= s1 <= 1 and 0 <= s2 <= 4 and 0 <= s3 <= 15
    pre: 0 <= defmask <= 15 and 0 <= docsel <= 2
    pre: NCLS == 5 or s3 == 0
    post: _
    """
    last = PART if PART is not None else 0
    s1 = pick(s1, 0, 1)
    s2 = pick(s2, 0, 4)
    s3 = pick(s3, 0, 15)
    defmask = pick(defmask, 0, 15)
    docsel = pick(docsel, 0, 2)
    generic = pickb(generic)
    if NCLS == 4:
        blists = [[], _SUBS[1][s1], _SUBS[2][s2], _SUBS[3][last]]
    else:
        blists = [[], _SUBS[1][s1], _SUBS[2][s2], _SUBS[3][s3], _SUBS[4][last]]
        # thorough: member placement drawn from 6 masks to keep the space within budget
        defmask = [0b00001, 0b00011, 0b00101, 0b01010, 0b11111, 0b10110, 0b01001, 0b10001, 0b00110, 0b11000,
                   0b00100, 0b01100, 0b10100, 0b00111, 0b11100, 0b01111][defmask]
    # docstring placement: 0 = every definition documented, 1 = alternate classes, 2 = only the root-most definition
    if docsel == 0:
        docmask = defmask
    elif docsel == 1:
        docmask = defmask & 0b10101
    else:
        docmask = defmask & -defmask
    with NoTracing():
        # one class's definition of m hidden by a --privacy rule, chosen by the layout (no rule / second class / third class)
        hidden = [None, NAMES[1], NAMES[2]][(defmask + docsel + s2) % 3]
        ok = check_model(blists, defmask, docmask, generic, hidden)
    return done(ok)


# ---------------------------------------------------------------- K05c hierarchies spread over several modules
from lib import projects as PJ

MODNAMES = [["ma", "mb", "mc"], ["zc", "yb", "xa"]]     # ascending / descending: bases processed first / last
_PLACEMENTS = [p for p in itertools.product(range(3), repeat=4) if p[0] == 0 and all(p[i] <= p[i + 1] <= p[i] + 1 for i in range(3))]


def gen_project(blists, placement, style, rev, defmask, shadow_root=False):
    """class i lives in module placement[i]; a base in another module is named through
    style 0: from pkg.M import B / 1: import pkg.M as al_M ... al_M.B / 2: import pkg.M ... pkg.M.B"""
    names = MODNAMES[rev]
    mods = {k: [] for k in sorted(set(placement))}
    imports = {k: [] for k in mods}
    for i, bs in enumerate(blists):
        k = placement[i]
        refs = []
        for b in bs:
            kb = placement[b]
            if kb == k:
                refs.append(NAMES[b])
            else:
                mod = "pkg." + names[kb]
                if style == 0:
                    imp, ref = "from %s import %s" % (mod, NAMES[b]), NAMES[b]
                elif style == 1:
                    imp, ref = "import %s as al_%s" % (mod, names[kb]), "al_%s.%s" % (names[kb], NAMES[b])
                else:
                    imp, ref = "import %s" % mod, "%s.%s" % (mod, NAMES[b])
                if imp not in imports[k]:
                    imports[k].append(imp)
                refs.append(ref)
        body = "    def m(self):\n        '''doc %s'''\n" % NAMES[i] if (defmask >> i) & 1 else "    pass\n"
        mods[k].append("class %s%s:\n%s" % (NAMES[i], "(" + ", ".join(refs) + ")" if refs else "", body))
    sources = {"pkg": ("", True)}
    for k in mods:
        extra = "pkg = 1\n" if (shadow_root and style != 2 and imports[k]) else ""     # a local name equal to the root package's
        sources["pkg." + names[k]] = ("\n".join(imports[k]) + "\n" + extra + "".join(mods[k]), False)
    where = {NAMES[i]: "pkg." + names[placement[i]] for i in range(len(blists))}
    return sources, where


def check_multimodule(blists, placement, style, rev, defmask, shadow_root=False):
    try:
        for c in range(len(blists)):
            ref_mro(c, {i: bs for i, bs in enumerate(blists)})
    except ValueError:
        return True          # inconsistent hierarchies are K05b's subject (one module, no import failure)
    sources, where = gen_project(blists, placement, style, rev, defmask, shadow_root)
    pym = PJ.run_cpython(sources)
    s = PJ.build(sources)
    if [m for sec, m, _t in s.msgs if sec == "mro"]:
        note(why="spurious mro warning", sources=sources)
        return False
    for nm, modname in where.items():
        pc = getattr(pym[modname], nm)
        c = s.allobjects.get(modname + "." + nm)
        if c is None:
            note(why="class not documented", name=nm, sources=sources)
            return False
        got = [x.fullName() for x in c.mro()]
        want = [k.__module__ + "." + k.__qualname__ for k in pc.__mro__ if k is not object]
        if got != want:
            note(why="mro differs from Python's", cls=modname + "." + nm, got=got, want=want, sources=sources)
            return False
        f = c.find("m")
        wantdef = next((k.__module__ + "." + k.__qualname__ for k in pc.__mro__ if "m" in vars(k)), None)
        if (f.parent.fullName() if f is not None else None) != wantdef:
            note(why="find() attributes m to the wrong class", cls=nm, got=f and f.parent.fullName(), want=wantdef, sources=sources)
            return False
        # the reverse relations the class page shows: "Known subclasses" and "overridden in"
        got_sub = sorted(x.fullName() for x in c.subclasses)
        want_sub = sorted(k.__module__ + "." + k.__qualname__ for k in pc.__subclasses__())
        if got_sub != want_sub:
            note(why="known subclasses differ from the interpreter's __subclasses__()", cls=modname + "." + nm, got=got_sub, want=want_sub, sources=sources)
            return False
        if "m" in vars(pc):
            from pydoctor.templatewriter import util as _tutil
            got_over = sorted(x.fullName() for x in _tutil.overriding_subclasses(c, "m"))

            def redefiners(k):
                out = []
                for sub in k.__subclasses__():
                    if "m" in vars(sub):
                        out.append(sub.__module__ + "." + sub.__qualname__)
                    else:
                        out += redefiners(sub)
                return out
            want_over = sorted(set(redefiners(pc)))
            if sorted(set(got_over)) != want_over:
                note(why="'overridden in' differs from the nearest redefining descendants", cls=modname + "." + nm, got=got_over, want=want_over, sources=sources)
                return False
    return True


@harness(
    parts=lambda: [[pi, st, rv] for pi in range(len(_PLACEMENTS)) for st in range(3) for rv in range(2)],
    timeout=(240, 1800), cls="E", tracing="concrete-after-choice", twin="first",
    code=["pydoctor.model.compute_mro (two-pass base resolution)", "pydoctor.model.Class._init_mro/mro/find", "pydoctor.astbuilder.ModuleVistor.visit_ClassDef/visit_Import/visit_ImportFrom",
          "pydoctor.model.System.process/getProcessedModule", "pydoctor.model.Documentable.resolveName/expandName", "pydoctor.model.defaultPostProcess (subclasses)", "pydoctor.templatewriter.util.overriding_subclasses"],
    bounds={"quick": "4 classes, all 160 ordered-base hierarchies (consistent ones) x 7 placements over <=3 modules of one package (later classes in the same or the next module) x 3 ways of naming a base in another module (from-import, aliased module import, dotted module import) x module names sorting before/after their dependencies x 2 member placements; plus a variant where the importing module has a local name equal to the root package's",
            "thorough": "same with 4 member placements"},
    outside="import cycles between the modules (C06), re-exports (C07), more than 3 modules",
)
def h_mro_multimodule(s1: int, s2: int, s3: int, dsel: int, shadow_root: bool) -> bool:
    """
    pre: 0 <= s1 <= 1 and 0 <= s2 <= 4 and 0 <= s3 <= 15 and 0 <= dsel <= NDSEL - 1
    pre: (not shadow_root) or (PART is not None and PART[1] != 2 and dsel == 0)
    post: _
    """
    pi, style, rev = PART if PART is not None else [3, 1, 1]
    s1 = pick(s1, 0, 1)
    s2 = pick(s2, 0, 4)
    s3 = pick(s3, 0, 15)
    dsel = pick(dsel, 0, NDSEL - 1)
    with NoTracing():
        blists = [[], _SUBS[1][s1], _SUBS[2][s2], _SUBS[3][s3]]
        ok = check_multimodule(blists, _PLACEMENTS[pi], style, rev, [0b0001, 0b0110, 0b1111, 0b1001][dsel], pickb(shadow_root))
    return done(ok)


NDSEL = tier(2, 4)
