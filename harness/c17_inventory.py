"""C17 - written inventories read back faithfully; malformed remote ones are survivable.

K17a (F) _parseInventoryLine / _parseInventory / update on lines assembled from a symbolic token vector.
K17b (S) writer line -> reader round trip with symbolic name / url strings; getLink.
K17c (F) _generateContent on the mini model under a symbolic visibility table, read back by pydoctor's reader and
         by Sphinx's InventoryFile.load.
K17d (S/F) _getPayload under a symbolic header / body / decompressor behaviour.
"""
import io
import posixpath
import zlib

from lib.hx import harness, pick, pickb, done, tier, PART, note, THOROUGH

PROPERTY = "C17"
LEVEL = "model_checking"
ASSUMPTIONS = [
    "malformed lines are modelled as space-joined vectors of tokens from a table covering every class the parser distinguishes "
    "(empty, word, py: type, non-py type, positive/negative integer, '-', '$')",
    "zlib.decompress is replaced by a stub with the documented contract (returns bytes or raises zlib.error) in K17d",
    "Sphinx 9.1 (sphinx.util.inventory.InventoryFile.load) is the foreign reader in K17c",
]

from pydoctor import sphinx as psphinx
from pydoctor import model
from crosshair.tracers import NoTracing

TOKENS = ["", "x", "py:class", "std:doc", "1", "-1", "-", "$", "a.b"]
NTOK = tier(4, 6)
GOOD = "good.name py:function -1 good.html#name -"


class Log:
    def __init__(self):
        self.calls = []

    def __call__(self, where, message, thresh=0):
        self.calls.append((where, message, thresh))


class Cache:
    def __init__(self, data):
        self.data = data

    def get(self, url):
        return self.data

    def close(self):
        pass


def check_line(tokens):
    line = " ".join(tokens)
    # (1) only ValueError may leave the line parser
    try:
        parsed = psphinx._parseInventoryLine(line)
    except ValueError:
        parsed = None
    except Exception as e:
        note(why="exception other than ValueError leaves _parseInventoryLine", line=line, exc=repr(e))
        return False
    if parsed is not None and "" not in tokens:
        name, typ, prio, location, display = parsed
        # what was parsed are the columns of the line, in order, with the integer column as priority
        cands = [t for t in set(tokens) if t.lstrip("-").isdigit() and int(t) == prio]
        if not isinstance(prio, int) or not any(" ".join([name, typ, t, location, display]) == line for t in cands):
            note(why="parsed columns do not reassemble to the line", line=line, parsed=repr(parsed))
            return False
    # (2) a payload holding this line between two good lines: nothing escapes, good lines kept, bad line reported
    log = Log()
    inv = psphinx.SphinxInventory(logger=log)
    payload = "first.name py:class -1 first.html -\n" + line + "\n" + GOOD + "\n"
    try:
        res = inv._parseInventory("http://base", payload)
    except Exception as e:
        note(why="exception leaves _parseInventory", line=line, exc=repr(e))
        return False
    if res.get("good.name") != ("http://base", "good.html#name") or res.get("first.name") != ("http://base", "first.html"):
        note(why="usable lines of the same payload lost", line=line, res=repr(res))
        return False
    nerr = len([c for c in log.calls if c[2] < 0])
    if parsed is None and line != "" and nerr != 1:
        note(why="unusable line not reported exactly once", line=line, calls=log.calls)
        return False
    if parsed is not None and nerr != 0:
        note(why="usable line reported as error", line=line)
        return False
    # (3) the same through update() with a really compressed payload
    log2 = Log()
    inv2 = psphinx.SphinxInventory(logger=log2)
    data = b"# Sphinx inventory version 2\n# Project: p\n# Version: 1\n# The rest of this file is compressed with zlib.\n" + zlib.compress(payload.encode("utf-8"))
    try:
        inv2.update(Cache(data), "http://base/objects.inv")
    except Exception as e:
        note(why="exception leaves SphinxInventory.update", line=line, exc=repr(e))
        return False
    if inv2.getLink("good.name") != "http://base/good.html#name":
        note(why="good line does not resolve after update", line=line)
        return False
    return True


@harness(
    parts=lambda: [[a, b] for a in range(len(TOKENS)) for b in range(len(TOKENS))],
    timeout=(200, 1500), cls="F", tracing="concrete-after-choice", twin="first",
    code=["pydoctor.sphinx._parseInventoryLine", "pydoctor.sphinx.SphinxInventory._parseInventory", "pydoctor.sphinx.SphinxInventory.update",
          "pydoctor.sphinx.SphinxInventory._getPayload", "pydoctor.sphinx.SphinxInventory.getLink"],
    bounds={"quick": "every line of 0..4 tokens from a 9-token table joined by single spaces (7 381 lines), embedded between two good lines",
            "thorough": "0..6 tokens (597 871 lines)"},
    outside="tokens outside the table (other words behave like 'x', other integers like '1'/'-1'); tabs; more than one bad line per payload",
)
def h_inv_line_tokens(n: int, t2: int, t3: int, t4: int, t5: int) -> bool:
    """
    pre: 0 <= n <= NTOK
    pre: 0 <= t2 <= 8 and 0 <= t3 <= 8 and 0 <= t4 <= 8 and 0 <= t5 <= 8
    pre: (n >= 3 or t2 == 0) and (n >= 4 or t3 == 0) and (n >= 5 or t4 == 0) and (n >= 6 or t5 == 0)
    post: _
    """
    a, b = PART if PART is not None else [1, 2]
    n = pick(n, 0, NTOK)
    if n < 2 and (a, b) != (0, 0):
        return True        # lines of 0 and 1 tokens are explored in partition [0, 0] only
    ts = [a, b, pick(t2, 0, 8), pick(t3, 0, 8), pick(t4, 0, 8), pick(t5, 0, 8)]
    toks = [TOKENS[i] for i in ts[:n]]
    with NoTracing():
        ok = True
        if n == 1:
            # one-token lines: every token
            for t in TOKENS:
                ok = ok and check_line([t])
        else:
            ok = check_line(toks)
    return done(ok)


# ------------------------------------------------------------------ K17b round trip on symbolic strings
DOMAINS = ["module", "class", "function", "method", "attribute", "obj"]


@harness(
    timeout=(240, 1200), cls="S", tracing="symbolic-through-pydoctor", twin="first", parts=lambda: list(range(len(DOMAINS))),
    code=["pydoctor.sphinx._parseInventoryLine", "line format of pydoctor.sphinx.SphinxInventoryWriter._generateLine"],
    bounds={"quick": "symbolic name and url, 1..3 characters each, any characters except space and line breaks",
            "thorough": "1..4 characters each"},
    outside="names/urls containing spaces or line separators (qualified names and pydoctor urls have none)",
)
def h_inv_roundtrip(name: str, url: str) -> bool:
    """
    pre: 1 <= len(name) <= LEN_RT and 1 <= len(url) <= LEN_RT
    pre: all(not c.isspace() for c in name) and all(not c.isspace() for c in url)
    post: _
    """
    dom = DOMAINS[PART if PART is not None else 0]
    line = f"{name} py:{dom} -1 {url} -"
    n, t, p, loc, d = psphinx._parseInventoryLine(line)
    return done(n == name and loc == url and t == "py:" + dom and p == -1 and d == "-")


LEN_RT = tier(3, 4)


@harness(
    timeout=(120, 600), cls="S", tracing="symbolic-through-pydoctor", twin="first",
    code=["pydoctor.sphinx.SphinxInventory.getLink"],
    bounds={"quick": "symbolic location string (<= 3 characters, any characters), fixed name and base url", "thorough": "<= 4 characters"},
)
def h_inv_getlink(loc: str) -> bool:
    """
    pre: len(loc) <= LEN_RT
    post: _
    """
    name, base = "pkg.mod.Name", "http://b/api"
    inv = psphinx.SphinxInventory(logger=Log())
    inv._links[name] = (base, loc)
    got = inv.getLink(name)
    if loc == "":
        want = None
    elif loc[-1] == "$":
        want = base + "/" + loc[:-1] + name
    else:
        want = base + "/" + loc
    other = inv.getLink("pkg.mod.Other")
    return done(got == want and other is None)


# ------------------------------------------------------------------ well-formed lines of every type shape
ITYPES = ["py:class", "py:function", "py:", "py:a:b", "std:doc", "std:label", "rst:directive:option", "c:function", "stray", ":", ":py", "PY:class", "py", "py::x"]
IPRIOS = ["1", "-1", "0"]
ILOCS = ["page.html", "page.html#$", "$"]
IDISP = ["-", "A title", "- -"]


def check_typed_line(ti, pi, li, di):
    typ = ITYPES[ti]
    line = "some.name %s %s %s %s" % (typ, IPRIOS[pi], ILOCS[li], IDISP[di])
    log = Log()
    inv = psphinx.SphinxInventory(logger=log)
    payload = "first.name py:class -1 first.html -\n" + line + "\n" + GOOD + "\n"
    data = b"# Sphinx inventory version 2\n# Project: p\n# Version: 1\n# The rest of this file is compressed with zlib.\n" + zlib.compress(payload.encode("utf-8"))
    try:
        inv.update(Cache(data), "http://base/objects.inv")
    except Exception as e:
        note(why="a well-formed inventory line makes SphinxInventory.update raise", line=line, exc=repr(e))
        return False
    if inv.getLink("good.name") != "http://base/good.html#name" or inv.getLink("first.name") != "http://base/first.html":
        note(why="usable lines of the same payload lost", line=line)
        return False
    got = inv.getLink("some.name")
    if typ.startswith("py:"):
        want = "http://base/" + ILOCS[li].replace("$", "some.name")
        if got != want:
            note(why="a line of the Python domain does not resolve to its location", line=line, got=got, want=want)
            return False
    elif got is not None:
        note(why="a line outside the Python domain is used for Python names", line=line, got=got)
        return False
    if [c for c in log.calls if c[2] < 0]:
        note(why="a well-formed line is reported as an error", line=line, calls=log.calls)
        return False
    return True


@harness(
    timeout=(200, 600), cls="F", tracing="concrete-after-choice", twin="first",
    code=["pydoctor.sphinx.SphinxInventory._parseInventory (domain filter)", "pydoctor.sphinx._parseInventoryLine", "SphinxInventory.update/getLink"],
    bounds={"quick": "well-formed five-column lines: 14 type columns (py:role, py: alone, two colons as in rst:directive:option, other domains, no colon, leading colon, upper case) x 3 priorities x 3 locations (with and without $) x 3 display names, between two good lines, through update()", "thorough": "same"},
    outside="type columns outside the table",
)
def h_inv_types(ti: int, pi: int, li: int, di: int) -> bool:
    """
    pre: 0 <= ti < 14 and 0 <= pi <= 2 and 0 <= li <= 2 and 0 <= di <= 2
    post: _
    """
    ti = pick(ti, 0, 13)
    pi = pick(pi, 0, 2)
    li = pick(li, 0, 2)
    di = pick(di, 0, 2)
    with NoTracing():
        ok = check_typed_line(ti, pi, li, di)
    return done(ok)


# ------------------------------------------------------------------ K17c writer on the mini model
from lib import minimodel as M


def check_writer(bits):
    table = {}
    for i, nm in enumerate(M.OBJECTS):
        table[nm] = model.PrivacyClass.HIDDEN if (bits >> i) & 1 else (model.PrivacyClass.PRIVATE if nm.endswith("_P") else model.PrivacyClass.PUBLIC)
    s = M.build(table)
    log = Log()
    w = psphinx.SphinxInventoryWriter(logger=log, project_name="proj", project_version="1.0")
    content = w._generateContent(s.rootobjects)
    text = content.decode("utf-8")
    visible = [n for n in M.OBJECTS if not M.hidden_star(table, n)]
    lines = text.splitlines()
    names = [ln.split(" ")[0] for ln in lines]
    if sorted(names) != sorted(visible):
        note(why="inventory lines != visible objects", names=names, visible=visible)
        return False
    # own reader
    inv = psphinx.SphinxInventory(logger=log)
    data = w._generateHeader() + zlib.compress(content)
    inv.update(Cache(data), "http://h/base/objects.inv")
    for n in M.OBJECTS:
        link = inv.getLink(n)
        if n in visible:
            if link != "http://h/base/" + s.allobjects[n].url:
                note(why="own reader: wrong link", name=n, link=link, url=s.allobjects[n].url)
                return False
        elif link is not None:
            note(why="own reader: hidden object has an entry", name=n)
            return False
    if [c for c in log.calls if c[2] < 0]:
        note(why="errors reported while reading own inventory", calls=log.calls)
        return False
    # Sphinx's reader
    from sphinx.util.inventory import InventoryFile
    invdata = InventoryFile.load(io.BytesIO(data), "http://h/base", posixpath.join)
    seen = {}
    for typ, entries in invdata.items():
        for n, item in entries.items():
            uri = item[2] if isinstance(item, tuple) else item.uri
            if n in seen:
                note(why="Sphinx reader: duplicate entry", name=n)
                return False
            seen[n] = (typ, uri)
    if sorted(seen) != sorted(visible):
        note(why="Sphinx reader: entries != visible objects", seen=sorted(seen), visible=visible)
        return False
    for n, (typ, uri) in seen.items():
        if uri != "http://h/base/" + s.allobjects[n].url:
            note(why="Sphinx reader: wrong uri", name=n, uri=uri)
            return False
    return True


@harness(
    parts=lambda: list(range(8)), timeout=(200, 900), cls="F", tracing="concrete-after-choice", twin="first",
    code=["pydoctor.sphinx.SphinxInventoryWriter._generateContent", "._generateLine", "._generateHeader", "pydoctor.sphinx.SphinxInventory.update/_getPayload/_parseInventory/getLink",
          "pydoctor.model.Documentable.isVisible/url"],
    bounds={"quick": "mini model of 11 objects (package, 2 modules, 3 classes, 2 methods, 1 function, 2 variables); every HIDDEN/not-HIDDEN assignment (2^11 = 2048 tables)",
            "thorough": "same space (already complete)"},
    outside="projects other than the mini model (C11/C12 cover rendered projects)",
)
def h_inv_writer(bits: int) -> bool:
    """
    pre: 0 <= bits < 256
    post: _
    """
    hi = PART if PART is not None else 0
    bits = pick(bits, 0, 255)
    with NoTracing():
        ok = check_writer(bits | (hi << 8))
    return done(ok)


# ------------------------------------------------------------------ K17d payload extraction under a symbolic decompressor
class _ZStub:
    error = zlib.error

    def __init__(self, mode, out):
        self.mode, self.out, self.seen = mode, out, None

    def decompress(self, data):
        self.seen = data
        if self.mode == 0:
            raise zlib.error("Error -3 while decompressing data")
        if self.mode == 1:
            return data
        return self.out


CHUNKS = [b"", b"#", b"\n", b"x", b"\xff", b"\xc3", b"\xa9", b"# c\n"]
NCH = tier(3, 4)


def check_payload(nhdr, chunks, mode, url_kind):
    body = b"".join(chunks)
    log = Log()
    inv = psphinx.SphinxInventory(logger=log)
    stub = _ZStub(mode, b"\xff\xfe")
    saved = psphinx.zlib
    psphinx.zlib = stub
    try:
        data = b"# h\n" * nhdr + body
        if url_kind == 0:
            try:
                text = inv._getPayload("http://b", data)
            except Exception as e:
                note(why="exception leaves _getPayload", data=repr(data), exc=repr(e))
                return False
            if not isinstance(text, str):
                return False
            try:
                want = body_after_comments(data).decode("utf-8") if mode == 1 else None
            except UnicodeError:
                want = None
            if mode == 1 and want is not None:
                if text != want or log.calls:
                    note(why="decodable payload not returned", data=repr(data), text=text)
                    return False
            elif text != "" or len(log.calls) != 1:
                note(why="failure not reported exactly once / payload not empty", data=repr(data), mode=mode, calls=log.calls)
                return False
        else:
            url = "http://b/objects.inv" if url_kind == 1 else "nobase"
            try:
                inv.update(Cache(data), url)
            except Exception as e:
                note(why="exception leaves update", data=repr(data), exc=repr(e))
                return False
            if url_kind == 2 and (len(log.calls) != 1 or inv._links):
                return False
            if data == b"" and len(log.calls) != 1:
                return False
    finally:
        psphinx.zlib = saved
    return True


def body_after_comments(data):
    """specification: leading lines that start with '#' (and end with a newline) are comments."""
    while True:
        i = data.find(b"\n")
        if i < 0 or not data.startswith(b"#"):
            return data
        data = data[i + 1:]


@harness(
    timeout=(200, 900), cls="F", tracing="concrete-after-choice", twin="first",
    parts=lambda: [[h, m, u] for h in range(4) for m in range(3) for u in range(3)],
    code=["pydoctor.sphinx.SphinxInventory._getPayload", "pydoctor.sphinx.SphinxInventory.update"],
    bounds={"quick": "0..3 comment header lines; body = up to 3 chunks from {empty, '#', newline, 'x', 0xff, 0xc3, 0xa9, comment line}; decompressor in {raises zlib.error, identity, returns undecodable bytes}; through _getPayload or update (good / base-less url)",
            "thorough": "up to 4 chunks"},
    stubs=["pydoctor.sphinx.zlib replaced by an object whose decompress() raises zlib.error / returns its input / returns b'\\xff\\xfe'"],
    outside="real zlib streams (used concretely in K17a/K17c); bytes outside the chunk table",
)
def h_inv_payload(c1: int, c2: int, c3: int, c4: int) -> bool:
    """
    pre: 0 <= c1 <= 7 and 0 <= c2 <= 7 and 0 <= c3 <= 7 and 0 <= c4 <= 7
    pre: NCH >= 4 or c4 == 0
    post: _
    """
    nhdr, mode, url_kind = PART if PART is not None else [0, 1, 0]
    chunks = [CHUNKS[pick(c, 0, 7)] for c in (c1, c2, c3, c4)]
    with NoTracing():
        ok = check_payload(nhdr, chunks, mode, url_kind)
    return done(ok)
