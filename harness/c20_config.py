"""C20 (narrow) - config-file quoting rules: what is written quoted is read back as the same text; unknown keys are
warned about, never applied.

K20a (RX, S) the quoting-detection regexes of _configparser, compiled from the live module, against the grammar of
             Python string literals: inclusion queries decided by z3 for strings of every length.
K20b (F)    unquote_str round trip on every text of <= 3 (4) characters over a quoting-relevant alphabet x 4 quoting styles;
             unquoted texts are returned unchanged; nothing detected as quoted is rejected by literal_eval;
             parse_toml_section_name on dotted / quoted names.
K20c (F)    ValidatorParser: every subset of known / unknown keys delivered by a stub inner parser.

Not claimed (stated in DESIGN.md): equivalence of every option across the three file formats and the command line
(configargparse, toml, configparser, file system and cwd are outside the reach of symbolic execution).
"""
import ast
import io
import warnings

from lib.hx import harness, solver_job, pick, pickb, done, tier, PART, note, known, IGNORE_KNOWN, KNOWN

PROPERTY = "C20"
LEVEL = "model_checking"
ASSUMPTIONS = [
    "only the quoting rules and the unknown-key filter are decided; per-option equivalence between file formats and the command line is outside the claim",
    "the grammar of un-prefixed Python string literals is written once as z3 regexes from the language reference (simple quotes: "
    "no raw newline, backslash escapes one following character; triple quotes: body without an unescaped run of three quotes and not ending in an unescaped quote)",
    "lib/rx2z3.py compiles the live regexes; z3 witnesses are replayed on is_quoted / unquote_str / ast.literal_eval",
]


# ------------------------------------------------------------------ K20a
@solver_job(
    timeout=(600, 1200), cls="S",
    code=["pydoctor._configparser._QUOTED_STR_REGEX", "._TRIPLE_QUOTED_STR_REGEX (patterns read from the live module, via re._parser -> z3)", "is_quoted", "unquote_str"],
    bounds={"quick": "strings of every length over all code points (z3 sequence theory); 4 inclusion queries + witness enumeration (<= 8 witnesses per query)", "thorough": "same"},
    outside="prefixed literals (r'', b'', f''), implicit concatenation",
)
def k20a_quote_regexes(part):
    import z3
    from pydoctor import _configparser as C
    from lib import rx2z3 as R
    res = dict(queries=0, unsat=0, nontrivial=0, unknown=0, unreplayed=0, violations=[], samples=[], known_witnesses=[])
    try:
        Q = R.compile_rx(C._QUOTED_STR_REGEX)
        T = R.compile_rx(C._TRIPLE_QUOTED_STR_REGEX)
    except NotImplementedError as e:
        res["unknown"] += 1
        res["note"] = "regex outside the compiled fragment: %s" % e
        return res
    # translator validation on concrete strings (the repo's own test vectors and edge cases)
    vectors = ['"a"', "'a'", '"a', '"""a"""', '""""""', '"a"\n', "'''a b'''", "'''\\''''", '"\\""', "''", '""', "'\\'", "'a'b'",
               '"""a""""', '""" a """', "'''\n'''", '"\n"', "'\\\n'", "a", "", "'", '"""', "'''a''b'''", "'''a'''b'''", ' "a"', '"a" ']
    for w in vectors:
        for rx, zr, nm in ((C._QUOTED_STR_REGEX, Q, "Q"), (C._TRIPLE_QUOTED_STR_REGEX, T, "T")):
            zv = z3.is_true(z3.simplify(z3.InRe(z3.StringVal(w), zr)))
            if zv != bool(rx.match(w)):
                return {"error": "rx2z3 disagrees with re on %s for %r" % (nm, w)}
    S = R.Session(timeout_ms=120000)
    NL, BS, NUL = R.lit("\n"), R.lit("\\"), R.lit("\x00")     # a NUL cannot occur in Python source

    def simple(q, lexical=False):
        """valid literals (no NUL) / with lexical=True everything shaped like a simple-quoted literal"""
        qc = R.lit(q)
        plain = R.not_chars(R.union([qc, BS, NL] + ([] if lexical else [NUL])))
        esc = z3.Concat(BS, R.not_chars(R.union([NL] + ([] if lexical else [NUL]))))
        return z3.Concat(qc, z3.Star(z3.Union(plain, esc)), qc)

    def triple(q):
        qc = R.lit(q)
        item = z3.Union(R.not_chars(R.union([qc, BS, NUL])), z3.Concat(BS, R.not_chars(NUL)))
        unit = z3.Union(item, z3.Concat(qc, item), z3.Concat(qc, qc, item))
        return z3.Concat(qc, qc, qc, z3.Star(unit), qc, qc, qc)

    V1 = z3.Union(simple('"'), simple("'"))
    V1_LEX = z3.Union(simple('"', True), simple("'", True))
    V3 = z3.Union(triple('"'), triple("'"))
    single_line = z3.Concat(z3.Star(R.not_chars(NL)), z3.Option(NL))

    def contains(r):
        return z3.Concat(z3.Star(R.ANY), r, z3.Star(R.ANY))

    # recorded findings as languages: a known class is subtracted from the query once a witness of it has been
    # seen and replayed, so that any OTHER undetected literal is still found.
    SQ3, DQ3 = R.lit("'" * 3), R.lit('"' * 3)
    CLASSES = {
        "C20:empty-triple-quoted-string-not-detected": z3.Union(R.lit('"' * 6), R.lit("'" * 6)),
        "C20:triple-quoted-escaped-quote-before-two-quotes-not-detected":
            z3.Union(contains(z3.Concat(BS, SQ3)), contains(z3.Concat(BS, DQ3))),
    }

    def classify_missed(w):
        """a valid literal that is not detected: which recorded finding explains it?"""
        for key, rx in CLASSES.items():
            if z3.is_true(z3.simplify(z3.InRe(z3.StringVal(w), rx))):
                return key
        return None

    def enumerate_witnesses(name, a, b, judge):
        """witnesses of L(a) minus L(b); judge(w) -> (is_real, detail).  Known classes are subtracted one by one."""
        removed = []
        for _ in range(len(CLASSES) + 1):
            r, w = S.witness(z3.InRe(S.x, z3.Intersect(a, z3.Complement(b))))
            res["queries"] += 1
            if r == "unsat":
                res["unsat"] += 1
                res["nontrivial"] += 1
                res["samples"].append({"query": name, "verdict": "unsat", "known_classes_subtracted": list(removed)})
                return
            if r != "sat":
                res["unknown"] += 1
                return
            real, detail = judge(w)
            if not real:
                res["unreplayed"] += 1
                res.setdefault("unreplayed_detail", []).append({"query": name, "witness": w, "detail": detail})
                return
            key = detail.get("key")
            if key and key in KNOWN and not IGNORE_KNOWN and key not in removed:
                res["known_witnesses"].append({"query": name, "witness": w, "key": key})
                removed.append(key)
                a = z3.Intersect(a, z3.Complement(CLASSES[key]))
                continue
            res["violations"].append({"witness": {"query": name, "text": w}, **detail})
            return
        res["unknown"] += 1

    def judge_missed(w):
        try:
            v = ast.literal_eval(w)
        except Exception as e:
            return False, {"why": "witness is not a valid literal (grammar too wide): %r" % e}
        if not isinstance(v, str):
            return False, {"why": "witness does not evaluate to str"}
        if C.is_quoted(w):
            return False, {"why": "is_quoted accepts the witness (translation wrong)"}
        return True, {"what": "valid quoted string is not detected as quoted and is read back with its quotes",
                      "unquote_str": C.unquote_str(w), "literal_eval": v, "key": classify_missed(w)}

    def judge_extra(w):
        if not C.is_quoted(w, triple=False):
            return False, {"why": "is_quoted rejects the witness (translation wrong)"}
        return True, {"what": "text that is not a simple-quoted single-line string literal is taken for quoted", "key": None}

    enumerate_witnesses("valid simple-quoted literal => detected", V1, Q, judge_missed)
    enumerate_witnesses("valid triple-quoted literal => detected (simple or triple regex)", V3, z3.Union(Q, T), judge_missed)
    enumerate_witnesses("detected by the simple regex and single-line => lexically a simple-quoted literal (+ optional final newline)",
                        z3.Intersect(Q, single_line), z3.Concat(V1_LEX, z3.Option(NL)), judge_extra)
    # the two detection regexes never both claim a text with different readings: Q and T are disjoint
    r, w = S.witness(z3.InRe(S.x, z3.Intersect(Q, T)))
    res["queries"] += 1
    if r == "unsat":
        res["unsat"] += 1
        res["nontrivial"] += 1
    elif r == "sat":
        # both match: harmless only if literal_eval gives one reading anyway - it does (one text, one evaluation); record
        res["samples"].append({"query": "Q and T overlap", "witness": w})
    else:
        res["unknown"] += 1
    res["solver_time_s"] = round(S.time, 3)
    return res


# ------------------------------------------------------------------ K20b
from pydoctor import _configparser as C
from crosshair.tracers import NoTracing

ALPHA = ["'", '"', "\\", " ", "n", "a", "\n", "\t", "#", "="]
NA = len(ALPHA)
QLEN = tier(3, 4)


def quote(s, style):
    """a correct quoting of s in one of the four styles"""
    q = ['"', "'", '"""', "'''"][style]
    body = s.replace("\\", "\\\\").replace(q[0], "\\" + q[0])
    if len(q) == 1:
        body = body.replace("\n", "\\n")
    return q + body + q


def check_quoting(s, style):
    text = quote(s, style)
    try:
        if ast.literal_eval(text) != s:
            return True        # harness quoting wrong for this input: not pydoctor's problem (never happens; guarded by twin)
    except Exception:
        return True
    try:
        got = C.unquote_str(text)
    except Exception as e:
        note(why="unquote_str raised on a correctly quoted text", text=text, exc=repr(e))
        return False
    if got == s:
        return True
    key = "C20:empty-triple-quoted-string-not-detected" if (s == "" and style >= 2) else None
    if key and known(key):
        return True
    note(why="quoted text is not read back as the same text", text=text, got=got, want=s, key=key)
    return False


def check_raw(t):
    """texts as they are (not produced by quote()): unchanged when not quoted; evaluable when detected as quoted"""
    if not C.is_quoted(t):
        if C.unquote_str(t) != t:
            note(why="unquoted text altered", text=t)
            return False
        return True
    try:
        v = ast.literal_eval(t)
    except Exception as e:
        # detected as quoted but not a literal: unquote_str documents ValueError; the property wants no such text
        # among single-line texts over this alphabet
        if "\n" in t:
            return True
        note(why="text detected as quoted is not a string literal", text=t, exc=repr(e))
        return False
    try:
        return C.unquote_str(t) == v
    except Exception as e:
        note(why="unquote_str raised", text=t, exc=repr(e))
        return False


@harness(
    parts=lambda: [[st, n] for st in range(5) for n in range(QLEN + 1)], timeout=(200, 1500), cls="F", tracing="concrete-after-choice", twin="first",
    code=["pydoctor._configparser.unquote_str", "is_quoted", "_QUOTED_STR_REGEX", "_TRIPLE_QUOTED_STR_REGEX"],
    bounds={"quick": "texts of <= 3 characters over {' \" \\\\ space n a newline tab # =} in the four quoting styles; and the same texts taken raw",
            "thorough": "<= 4 characters"},
    outside="characters outside the alphabet; longer texts (K20a covers detection for every length)",
)
def h_unquote(c0: int, c1: int, c2: int, c3: int) -> bool:
    """
    pre: 0 <= c0 < NA and 0 <= c1 < NA and 0 <= c2 < NA and 0 <= c3 < NA
    pre: (PART is None) or ((PART[1] >= 1 or c0 == 0) and (PART[1] >= 2 or c1 == 0) and (PART[1] >= 3 or c2 == 0) and (PART[1] >= 4 or c3 == 0))
    post: _
    """
    style, n = PART if PART is not None else [0, 2]
    cs = [pick(c, 0, NA - 1) for c in (c0, c1, c2, c3)][:n]
    with NoTracing():
        s = "".join(ALPHA[c] for c in cs)
        ok = check_quoting(s, style) if style < 4 else check_raw(s) and check_raw("'" + s) and check_raw('"' + s + '"') and check_raw("'" + s + "'")
    return done(ok)


def witness_missed(text):
    """replay helper for recorded findings: True when a quoted text is read back as its value"""
    return C.unquote_str(text) == ast.literal_eval(text)


COMPONENTS = [("a", "a"), (" b ", "b"), ('"c"', "c"), ("'d'", "d"), ('"e.f"', "e.f"), ("tool", "tool"), (" 'g' ", "g"), ('"h\\"i"', None)]
NC = len(COMPONENTS)


@harness(
    timeout=(200, 900), cls="F", tracing="concrete-after-choice", twin="first",
    code=["pydoctor._configparser.parse_toml_section_name", "unquote_str(triple=False)"],
    bounds={"quick": "section names of 1..3 components from {bare, padded, double-quoted, single-quoted, double-quoted-with-dot, padded single-quoted}", "thorough": "same"},
)
def h_toml_section(n: int, k0: int, k1: int, k2: int) -> bool:
    """
    pre: 1 <= n <= 3 and 0 <= k0 < NC - 1 and 0 <= k1 < NC - 1 and 0 <= k2 < NC - 1
    pre: (n >= 2 or k1 == 0) and (n >= 3 or k2 == 0)
    post: _
    """
    n = pick(n, 1, 3)
    ks = [pick(k, 0, NC - 2) for k in (k0, k1, k2)][:n]
    with NoTracing():
        name = ".".join(COMPONENTS[k][0] for k in ks)
        want = tuple(COMPONENTS[k][1] for k in ks)
        try:
            got = C.parse_toml_section_name(name)
        except Exception as e:
            note(why="parse_toml_section_name raised", name=name, exc=repr(e))
            return False
        ok = got == want
        if not ok:
            note(why="section name components", name=name, got=got, want=want)
    return done(ok)


# ------------------------------------------------------------------ K20c
from pydoctor import options as _options

PARSER = _options.get_parser()
KNOWN_KEYS = {k for a in PARSER._actions for k in PARSER.get_possible_config_keys(a)}
KEYS = ["docformat", "project-name", "privacy", "verbose", "no-such-option", "docformatt", "project_name_", "DOCFORMAT"]
assert all(k in KNOWN_KEYS for k in KEYS[:4]) and not any(k in KNOWN_KEYS for k in KEYS[4:]), KNOWN_KEYS


class _Inner:
    def __init__(self, data):
        self.data = data

    def parse(self, stream):
        return dict(self.data)

    def get_syntax_description(self):
        return "stub"


def check_validator(mask):
    data = {}
    for i, k in enumerate(KEYS):
        if (mask >> i) & 1:
            data[k] = ["v%d" % i] if k == "privacy" else "v%d" % i
    v = C.ValidatorParser(_Inner(data), PARSER)
    with warnings.catch_warnings(record=True) as w:
        warnings.simplefilter("always")
        try:
            out = v.parse(io.StringIO(""))
        except Exception as e:
            note(why="ValidatorParser.parse raised", data=data, exc=repr(e))
            return False
    want = {k: val for k, val in data.items() if k in KEYS[:4]}
    if out != want:
        note(why="unknown key applied or known key dropped", data=data, out=out)
        return False
    unknown = [k for k in data if k not in KEYS[:4]]
    msgs = [str(x.message) for x in w]
    if len(msgs) != len(unknown) or any(not any(repr(k) in m or k in m for m in msgs) for k in unknown):
        note(why="unknown keys not warned about exactly once each", unknown=unknown, msgs=msgs)
        return False
    return True


@harness(
    timeout=(200, 900), cls="F", tracing="concrete-after-choice", twin="first",
    code=["pydoctor._configparser.ValidatorParser.parse", "pydoctor.options.get_parser (real argument parser: known keys)"],
    bounds={"quick": "every subset of 4 known and 4 unknown keys (256 config dictionaries) delivered by a stub inner parser", "thorough": "same"},
    stubs=["inner config parser replaced by a stub returning the chosen dictionary"],
)
def h_validator(mask: int) -> bool:
    """
    pre: 0 <= mask < 256
    post: _
    """
    mask = pick(mask, 0, 255)
    with NoTracing():
        ok = check_validator(mask)
    return done(ok)


# ------------------------------------------------------------------ K20d every option: config file == command line
import argparse
import json as _json

FPARSER = _options.get_parser()
FPARSER._default_config_files = []          # no lookup of ./pyproject.toml etc.: the file content is passed in memory
ACTIONS = [a for a in FPARSER._actions if a.option_strings and a.dest not in ("help", "version", "config")]
import copy as _copy
_PRISTINE = _copy.deepcopy(FPARSER._config_file_parser.config_parser if hasattr(FPARSER._config_file_parser, "config_parser") else None)


def _fresh_config_parser():
    """a run is a fresh process: whatever state the (module-level) config-file parser keeps between files starts from its initial value"""
    cfp = FPARSER._config_file_parser
    inner = getattr(cfp, "config_parser", None)
    if inner is not None and _PRISTINE is not None:
        fresh = _copy.deepcopy(_PRISTINE)
        inner.__dict__.clear()
        inner.__dict__.update(fresh.__dict__)


OTHER_INI = "[metadata]\nname = project\nversion = 1.0\n\n[options]\npackages = find:\n"
NACT = len(ACTIONS)
STR_VALUES = ["abc", "a b", "x=y", "0", "é", "[not a list", "it's", "1.10", "false", "C:\\temp\\new_dir"]
INT_VALUES = [0, 1, 7, 12]
LIST_VALUES = [["PUBLIC:a"], ["PUBLIC:a", "HIDDEN:b.*"], ["b", "a", "b"], ["0"], ["docs/my templates", "x\ty", "plain"], ["a,b", "c"]]


def _key(a):
    return max(a.option_strings, key=len).lstrip("-")


def _kind(a):
    if isinstance(a, argparse._StoreTrueAction):
        return "true"
    if isinstance(a, argparse._StoreFalseAction):
        return "false"
    if isinstance(a, argparse._CountAction):
        return "count"
    if isinstance(a, argparse._AppendAction):
        return "append"
    if a.type is int:
        return "int"
    return "str"


def _values(a):
    if _kind(a) == "str" and a.choices:
        return list(a.choices)
    return {"true": [True, False], "false": [True, False], "count": [0, 1, 2, 3], "append": LIST_VALUES, "int": INT_VALUES, "str": STR_VALUES}[_kind(a)]


def _cli(a, v):
    k, opt = _kind(a), max(a.option_strings, key=len)
    if k in ("true", "false"):
        return [opt] if v else []
    if k == "count":
        return [opt] * v
    if k == "append":
        return ["%s=%s" % (opt, x) for x in v]
    return ["%s=%s" % (opt, v)]


def _file(a, v, fmt):
    """the setting written in a config file; fmt 0: pyproject.toml, 1: ini bare values, 2: ini quoted / python-list values"""
    k, key = _kind(a), _key(a)
    if fmt == 3:
        # pyproject.toml written with LITERAL strings (no escapes: backslashes are themselves) and a trailing comment
        lit_ = lambda x: "'%s'" % x if "'" not in x and "\n" not in x and "\t" not in x else _json.dumps(x, ensure_ascii=False)
        if k in ("true", "false"):
            val = "true" if v else "false"
        elif k in ("count", "int"):
            val = str(v)
        elif k == "append":
            val = "[" + ", ".join(lit_(x) for x in v) + "]"
        else:
            val = lit_(v)
        return "[tool.pydoctor]\n%s = %s  # a comment\n" % (key, val)
    if fmt == 0:
        if k in ("true", "false"):
            val = "true" if v else "false"
        elif k in ("count", "int"):
            val = str(v)
        elif k == "append":
            val = "[" + ", ".join(_json.dumps(x) for x in v) + "]"
        else:
            val = _json.dumps(v, ensure_ascii=False)
        return "[tool.pydoctor]\n%s = %s\n" % (key, val)
    head = "[pydoctor]\n" if fmt == 1 else "[tool:pydoctor]\n"
    if k in ("true", "false"):
        val = "true" if v else "false"
    elif k in ("count", "int"):
        val = str(v)
    elif k == "append":
        val = ("\n    " + "\n    ".join(v)) if fmt == 1 else "[" + ", ".join(repr(x) for x in v) + "]"
    else:
        val = v if fmt == 1 else quote(v, 0)
    return head + "%s = %s\n" % (key, val)


def _bare_toml_literal(v):
    """the bare text is a TOML literal of a non-string type whose str() is a different text"""
    import toml
    try:
        x = toml.loads("k = " + v)["k"]
    except Exception:
        return False
    return not isinstance(x, str) and str(x) != v


def _parse(args, contents=None):
    with warnings.catch_warnings(record=True) as w:
        warnings.simplefilter("always")
        try:
            ns = FPARSER.parse_args(["src"] + args, config_file_contents=contents)
        except SystemExit as e:
            return None, ["SystemExit(%s)" % e.code]
        except Exception as e:
            return None, [repr(e)]
    d = dict(vars(ns))
    return d, [str(x.message) for x in w]


def check_option(ai, vi, fmt, mode):
    a = ACTIONS[ai]
    vals = _values(a)
    v = vals[vi % len(vals)]
    if _kind(a) in ("true", "false") and not v and mode == 0 and fmt != 0:
        pass
    text = _file(a, v, fmt)
    cli = _cli(a, v)
    _fresh_config_parser()
    if mode == 3:
        # history: another, INI-only, file of the project (a setup.cfg without pydoctor section) was read first by the same parser
        _fresh_config_parser()
        want, w2 = _parse([], text)
        _fresh_config_parser()
        _before, _w = _parse([], OTHER_INI)
        got, w1 = _parse([], text)
        what = "a config file means something else when another config file was read before it"
    elif mode == 4:
        # the same action set through TWO of its keys in one file (e.g. add-package and add-module): both settings count, in file order
        keys = [k for k in FPARSER.get_possible_config_keys(a) if not k.startswith("-")]
        opts2 = [o for o in a.option_strings if o.startswith("--")]
        if len(keys) < 2 or len(opts2) < 2 or _kind(a) not in ("append", "str", "int"):
            return True
        other = vals[(vi + 1) % len(vals)]
        def one(key, val):
            t = _file(a, val, fmt)
            return t.split("\n", 1)[1].replace(_key(a) + " =", key + " =", 1)
        text = _file(a, v, fmt).split("\n", 1)[0] + "\n" + one(keys[0], v) + one(keys[1], other)
        def cli_for(opt, val):
            return ["%s=%s" % (opt, x) for x in val] if _kind(a) == "append" else ["%s=%s" % (opt, val)]
        cli = cli_for("--" + keys[0], v) + cli_for("--" + keys[1], other)
        got, w1 = _parse([], text)
        want, w2 = _parse(cli)
        what = "two keys of one option in a config file do not mean what the two options mean on the command line"
    elif mode == 0:
        got, w1 = _parse([], text)
        want, w2 = _parse(cli)
        what = "config file value differs from the same value on the command line"
    elif mode == 1:
        other = vals[(vi + 1) % len(vals)]
        cli2 = _cli(a, other)
        if not cli2:
            return True           # a flag that is off has no command-line spelling to override with
        got, w1 = _parse(cli2, text)
        want, w2 = _parse(cli2)
        what = "command-line value does not override the config file"
    else:
        junk = "no-such-option-%d = 1\n" % vi
        got, w1 = _parse([], text + junk)
        want, w2 = _parse([], text)
        what = "unknown key changes the configuration or is not warned about"
        if got is not None and len(w1) != len(w2) + 1:
            note(why="unknown key not warned about exactly once", text=text + junk, warnings=w1)
            return False
    if got is None and want is None:
        return True               # rejected both ways (e.g. not among the option's choices)
    if got is None or want is None or got != want:
        if fmt == 1 and _kind(a) == "str" and _bare_toml_literal(v):
            key = "C20:ini-section-that-is-valid-toml-reads-bare-values-as-toml-literals"
            if known(key):
                return True
        note(why=what, option=_key(a), value=repr(v), file=text, cli=cli, got=None if got is None else {k: repr(x) for k, x in got.items() if want is None or want.get(k) != x},
             want=None if want is None else {k: repr(x) for k, x in want.items() if got is None or got.get(k) != x}, warnings=w1)
        return False
    return True


@harness(
    parts=lambda: list(range(NACT)), timeout=(200, 900), cls="E", tracing="concrete-after-choice", twin="first",
    code=["pydoctor.options.get_parser (every action of the real parser)", "pydoctor._configparser.TomlConfigParser.parse", "IniConfigParser.parse", "CompositeConfigParser.parse", "ValidatorParser.parse",
          "configargparse conversion of config items to command-line arguments"],
    bounds={"quick": "every option of the argument parser (41) x representative values of its kind (flags on/off, counts 0..3, ints 0/1/7/12, 10 strings incl. a Windows path, 6 lists incl. items with inner spaces, tabs and commas) x {pyproject.toml, pyproject.toml with literal strings and trailing comments, ini with bare values, ini with quoted / python-list values} x {file alone == command line alone, command line overrides file, unknown key warned and ignored, same meaning after another INI-only file was read by the same parser, one option set through two of its keys in one file}; file content passed in memory",
            "thorough": "same"},
    stubs=["the parser's default config file list is emptied on the harness's own parser instance; file content is handed over through configargparse's config_file_contents"],
    outside="reading the files from disk / cwd lookup, the -c/--config option, conversion of the namespace to Options (converters), values outside the tables",
)
def h_file_equals_cli(vi: int, fmt: int, mode: int) -> bool:
    """
    pre: 0 <= vi <= 9 and 0 <= fmt <= 3 and 0 <= mode <= 4
    post: _
    """
    ai = PART if PART is not None else 11
    vi = pick(vi, 0, 9)
    fmt = pick(fmt, 0, 3)
    mode = pick(mode, 0, 4)
    with NoTracing():
        if vi >= len(_values(ACTIONS[ai])):
            return True
        ok = check_option(ai, vi, fmt, mode)
    return done(ok)


def witness_ini_toml(text, dest, want):
    """replay helper: True when the config text yields `want` for option `dest`"""
    d, _w = _parse([], text)
    return d is not None and d[dest] == want
