"""C10 (narrow) - generated pages are well-formed and source text can never become markup.

The escaping itself is done by twisted.web / docutils / expat (third party; DESIGN.md §4), so no pydoctor kernel carries the
property and nothing symbolic can be said.  What is decided here, as bounded-exhaustive exploration (class E): a hostile
string from a menu (element, attribute/event-handler, entity look-alike, CDATA and comment delimiters, quotes, control
characters) is planted in one of the places where source text reaches a page (docstrings and fields in each docformat,
constant value, parameter default, string annotation, decorator argument, base-class subscript, attribute docstring, hyperlink target, image alternative text), the
project is rendered by the real writer, and
  (1) every written page parses as XML (after characters illegal in XML are set aside, as the statement allows);
  (2) the element/attribute SKELETON of every page is identical to the skeleton obtained with the same string with its HTML-significant
      characters (< > & quotes) replaced, in the same place - i.e. the text introduced no element, attribute, script or event handler;
  (3) where the place displays the string, it is present as TEXT in the parsed page.
"""
import copy
import os
import re
import xml.etree.ElementTree as ET

from lib.hx import harness, pick, pickb, done, tier, PART, note, known, sample

PROPERTY = "C10"
LEVEL = "exploration"
ASSUMPTIONS = [
    "narrow claim: one hostile string from a menu of 25, planted in one of 19 places of a fixed two-module project, 5 docformats; nothing is claimed for other inputs",
    "reST raw / include directives are excluded by the statement and not used",
    "well-formedness is judged by expat (xml.etree) after removing characters that are illegal in XML 1.0",
]

from crosshair.tracers import NoTracing
from lib import projects as PJ
from lib import crawl

HOSTILE = [
    "<script>alert(1)</script>", "\"><img src=x onerror=alert(1)>", "'><svg onload=alert(1)>", "&amp;&lt;b&gt;&#60;i&#62;", "]]><b>x</b>", "<!-- c --><b>",
    "--></p><p>", "<![CDATA[<x>]]>", "</code></div><h1>x</h1>", "&nosuchentity;", "<a href=javascript:alert(1)>x</a>", "\x1b[31m<b>", "a\x0cb<i>", "<b\tonclick=x>",
    "x\" onmouseover=\"alert(1)", "x' onfocus='alert(1)",
    # a reST directive smuggled through a string that pydoctor itself pastes into reST (line separators of str.splitlines); not planted in
    # docstrings, where it would be the author's own explicit raw directive, which the statement excludes
    "x\n\n.. raw:: html\n\n   <script>alert(1)</script>", "x\r\r.. raw:: html\r\r   <script>alert(1)</script>",
    "x\u2028\u2028.. raw:: html\u2028\u2028   <script>alert(1)</script>", "x\x85\x85.. raw:: html\x85\x85   <script>alert(1)</script>", "x\x1c\x1c.. raw:: html\x1c\x1c   <script>alert(1)</script>",
    # reST inline markup behind something that could end an inline literal early, or keep it from starting
    "x`` `click <javascript:alert(1)>`_ ``y", " `click <javascript:alert(1)>`_ ", "a``` :sup:`b` ```c", "x\\",
]
DIRECTIVE_STRINGS = range(16, 25)
DOC_PLACES = {"moddoc", "funcdoc", "classdoc", "attrdoc", "field_param", "field_return", "field_raises", "attr_href", "attr_alt", "xref_label"}
NH = len(HOSTILE)
FORMATS = ["epytext", "restructuredtext", "google", "numpy", "plaintext"]
PLACES = ["moddoc", "funcdoc", "classdoc", "attrdoc", "field_param", "field_return", "field_raises", "const", "default", "annotation", "decorator", "base", "attr_href", "attr_alt", "deprecated", "xref_label", "default_ifexp", "default_lambda_cmp", "default_listcomp"]
NP = len(PLACES)
_ILLEGAL = re.compile("[\x00-\x08\x0b\x0c\x0e-\x1f￾￿]")


def lit(s):
    return repr(s)


def field(fmt, kind, text):
    if fmt == "epytext":
        return {"param": "@param a: %s", "return": "@return: %s", "raises": "@raise ValueError: %s"}[kind] % text
    if fmt == "restructuredtext":
        return {"param": ":param a: %s", "return": ":returns: %s", "raises": ":raises ValueError: %s"}[kind] % text
    if fmt == "google":
        return {"param": "Args:\n    a: %s", "return": "Returns:\n    %s", "raises": "Raises:\n    ValueError: %s"}[kind] % text
    if fmt == "numpy":
        return {"param": "Parameters\n----------\na : int\n    %s", "return": "Returns\n-------\nint\n    %s", "raises": "Raises\n------\nValueError\n    %s"}[kind] % text
    return text


def gen(fmt, place, s):
    """the project with string s planted at `place`; docstrings are written as ordinary (non-raw) literals through repr()"""
    def doc(place_here, base, indent):
        text = base + (" " + s if place == place_here else "")
        return lit(text)
    fdoc = "Function f."
    if place == "funcdoc":
        fdoc += " " + s
    for k in ("param", "return", "raises"):
        if place == "field_" + k:
            fdoc += "\n\n" + field(fmt, k, s)
    # places where the docformat's own translator writes source text into an ATTRIBUTE value (href, alt)
    if place == "attr_href":
        fdoc += "\n\n" + ("See U{the page<http://example.com/?q=%s>} now." % s if fmt == "epytext" else "See `the page <http://example.com/?q=%s>`_ now." % s if fmt != "plaintext" else s)
    if place == "attr_alt":
        fdoc += "\n\n" + ("See U{%s} now." % s if fmt == "epytext" else ".. image:: logo.png\n   :alt: %s\n\nAfter." % s if fmt != "plaintext" else s)
    if place == "xref_label":
        # the LABEL of a cross-reference with an explicit target (rendered by pydoctor's own reference handling, not by docutils)
        fdoc += "\n\n" + ("See L{%s <deco>} now." % s if fmt == "epytext" else "See `%s <deco>` now." % s if fmt != "plaintext" else s)
    default = lit(s) if place == "default" else "1"
    # defaults of expression kinds the value colorizer renders through its generic (source text) fallback
    if place == "default_ifexp":
        default = "('none' if deco else %s)" % lit(s)
    elif place == "default_lambda_cmp":
        default = "(lambda q: q == %s)" % lit(s)
    elif place == "default_listcomp":
        default = "[%s for _ in ()]" % lit(s)
    annotation = lit(s) if place == "annotation" else "int"
    deco = "@deco(%s)\n" % lit(s) if place == "decorator" else "@deco(1)\n"
    base = "Base[%s]" % lit(s) if place == "base" else "Base"
    const = lit(s) if place == "const" else "'plain'"
    repl = lit(s) if place == "deprecated" else "'other thing'"
    src = (
        "%s\n" % doc("moddoc", "Module m.", "")
        + "def deco(x):\n    return lambda f: f\n"
        + "class Base:\n    def __class_getitem__(cls, k): return cls\n"
        + "CONST = %s\n" % const
        + deco + "def f(a: %s = %s) -> int:\n    %s\n    return 1\n" % (annotation, default, lit(fdoc))
        + "class K(%s):\n    %s\n    attr = 1\n    %s\n" % (base, doc("classdoc", "Class K.", "    "), doc("attrdoc", "Attribute attr.", "    "))
        # the twisted deprecation extension pastes the replacement string into a reST '.. deprecated::' directive
        + "from twisted.python.deprecate import deprecated\nfrom incremental import Version\n@deprecated(Version('Twisted', 16, 0, 0), replacement=%s)\ndef old():\n    'Old.'\n" % repl
    )
    return {"m": (src, False)}


def skeleton(root):
    out = []
    for e in root.iter():
        tag = e.tag.split("}")[-1] if isinstance(e.tag, str) else "#"
        item = (tag, tuple(sorted(k.split("}")[-1] for k in e.attrib)), e.attrib.get("class"))
        if item == ("span", ("class",), "pre"):
            continue        # docutils wraps words of a literal that contain two adjacent punctuation characters (no-wrap protection): depends on punctuation, carries nothing from the text
        out.append(item)
    return out


def render_parse(fmt, place, s):
    opts = copy.copy(PJ.OPTS)
    opts.docformat = fmt
    sy = PJ.build(gen(fmt, place, s), opts=opts)
    out = crawl.render(sy, "classic")
    try:
        pages = {}
        for f in sorted(out.files):
            if f.endswith(".html"):
                with open(os.path.join(out.dir, f), encoding="utf-8") as fh:
                    txt = fh.read()
                txt = _ILLEGAL.sub("", txt)
                try:
                    pages[f] = ET.fromstring(txt.encode("utf-8"))
                except ET.ParseError as e:
                    pages[f] = "not well-formed: %s" % e
        return pages
    finally:
        out.close()


_BENIGN_CACHE = {}


def check_markup(fmt, place, hi):
    s = HOSTILE[hi]
    if hi in DIRECTIVE_STRINGS and place in DOC_PLACES:
        return True
    # the harmless twin: the same string with the HTML-significant characters replaced, so that everything a DOCFORMAT
    # gives meaning to (colons, dashes, brackets, whitespace) is the same in both renderings
    benign = re.sub("[<>&\"']", "x", s)
    has_control = _ILLEGAL.search(s) is not None
    if place in ("attr_href", "attr_alt", "xref_label") and re.search("[<>`{}]", s):
        has_control = True           # < and > delimit the target in the docformats' own link syntax, so the twin is a different document: count-based oracle
    if place == "annotation":
        try:
            import ast as _ast
            if isinstance(_ast.parse(benign).body[0], _ast.Expr):
                has_control = True       # the twin happens to be an expression (rendered as code, not as a string): count-based oracle only
        except (SyntaxError, IndexError):
            pass
    mentioned = set(re.findall(r"<\s*([A-Za-z][A-Za-z0-9]*)", s)) | set(re.findall(r"([A-Za-z]+)\s*=", s))
    key = (fmt, place, benign)
    if key not in _BENIGN_CACHE:
        _BENIGN_CACHE[key] = {f: (skeleton(r) if not isinstance(r, str) else r) for f, r in render_parse(fmt, place, benign).items()}
    base = _BENIGN_CACHE[key]
    pages = render_parse(fmt, place, s)
    ctx = dict(docformat=fmt, place=place, string=s)
    sample(docformat=fmt, place=place, string=s, harmless_twin=benign, module=gen(fmt, place, s)["m"][0])
    if set(pages) != set(base):
        note(why="different set of pages", **ctx)
        return False
    shown = False
    plain = _ILLEGAL.sub("", s)
    for f, root in pages.items():
        if isinstance(root, str):
            note(why="page is not well-formed", page=f, error=root, **ctx)
            return False
        if isinstance(base[f], str):
            continue
        sk = skeleton(root)
        if has_control:
            # a control character may legitimately make a docstring fall back to plain text (C08); what must not happen is that
            # an element or attribute NAMED in the string appears more often than with the harmless string
            def count(skel, name):
                return sum(1 for t, attrs, _c in skel if t == name or name in attrs)
            for name in mentioned:
                if count(sk, name) > count(base[f], name):
                    note(why="source text introduced an element or attribute", page=f, name=name, **ctx)
                    return False
        elif sk != base[f]:
            diff = next(((a, b) for a, b in zip(sk, base[f]) if a != b), (sk[len(base[f]):][:1], base[f][len(sk):][:1]))
            note(why="source text changed the element/attribute structure of a page", page=f, first_difference=repr(diff), **ctx)
            return False
        if not shown:
            alltext = "".join(root.itertext())
            squeezed = "".join(alltext.split())
            # a constant may be displayed as the equivalent literal with its quote escaped (C15 decides that the literal denotes the same string)
            if any("".join(v.split()) in squeezed for v in (plain, plain.replace("'", "\\'"), plain.replace('"', '\\"'))):
                shown = True
    if place == "deprecated" and not shown:
        note(why="the replacement string of @deprecated is not present as text on any page (it was interpreted as markup)", **ctx)
        return False
    if place in ("const", "default", "funcdoc", "moddoc", "classdoc", "attrdoc") and not shown and fmt == "plaintext" and not re.search(r"[\x00-\x1f]", s):
        note(why="the string is not present as text on any page", **ctx)
        return False
    return True


UNBLOCK = ["open", "os.mkdir", "os.symlink", "os.remove", "os.rmdir", "shutil.rmtree", "os.scandir", "os.listdir", "os.rename", "os.unlink", "shutil.copyfile",
           "shutil.copytree", "os.chmod", "os.utime", "shutil.copystat", "shutil.copymode"]


@harness(
    parts=lambda: [[p, f] for p in range(NP) for f in range(5)], timeout=(300, 1800), cls="E", tracing="concrete-after-choice", twin="first", unblock=UNBLOCK,
    code=["pydoctor.stanutils.flatten/html2stan (_RE_CONTROL)", "pydoctor.node2stan.HTMLTranslator", "pydoctor.templatewriter.writer.flattenToFile", "pydoctor.astbuilder._ValueFormatter", "pydoctor.epydoc.markup._pyval_repr",
          "pydoctor.templatewriter.pages.format_signature/format_decorators/format_class_signature", "pydoctor.epydoc2stan.FieldHandler", "twisted.web.template flattening (third party, exercised not modelled)"],
    bounds={"quick": "25 hostile strings (element, attribute and event-handler injection with either quote, entity look-alikes, CDATA/comment delimiters, control characters, a reST raw directive smuggled behind each of 5 line separators, reST inline markup behind literal-ending backticks / leading white space) x 19 places (incl. parameter defaults that are conditional expressions, lambdas with comparisons and comprehensions - rendered through the colorizer's source-text fallback -, the label of a cross-reference with an explicit target, hyperlink target and image alt text, which the translators write into attribute values, and the replacement string of twisted's @deprecated, which pydoctor pastes into reST) x 5 docformats (1 900 renders + harmless twins of equal length)", "thorough": "same"},
    outside="strings outside the menu; several hostile strings at once; reST raw/include directives; names (identifiers cannot hold markup)",
)
def h_markup(hi: int) -> bool:
    """
    pre: 0 <= hi < NH
    post: _
    """
    pi, fi = PART if PART is not None else [7, 0]
    hi = pick(hi, 0, NH - 1)
    with NoTracing():
        ok = check_markup(FORMATS[fi], PLACES[pi], hi)
    return done(ok)
