"""C08 - any docstring is rendered; parser/renderer failures degrade to plain text (the fault-containment half).

What is decided: WHATEVER a docstring parser or a ParsedDocstring does within its documented contract (raise ParseError,
raise any other exception, append recoverable errors; to_stan raising anything; to_node raising NotImplementedError), the
wrapper layer of epydoc2stan contains it: format_docstring / format_summary / format_toc return, the complete original text is
shown, the problem is reported against the object exactly once, other objects are unaffected.
The behaviour of the real parsers on arbitrary text is outside the claim (regex/docutils code on unbounded strings).
"""
from xml.sax import SAXParseException

from lib.hx import harness, pick, pickb, done, tier, PART, note

PROPERTY = "C08"
LEVEL = "model_checking"
ASSUMPTIONS = [
    "fault model = documented contracts: a parser function may raise ParseError (after appending it to errs) or any other Exception and may append "
    "recoverable errors; ParsedDocstring.to_stan may raise any Exception; ParsedDocstring.to_node may raise NotImplementedError only",
    "the stub parser is installed by replacing epydoc2stan.get_parser_by_name; everything downstream is the real wrapper code",
    "hangs inside a parser and the real parsers' behaviour on arbitrary text are outside the claim",
]

from pydoctor import model, epydoc2stan
from pydoctor.options import Options
from pydoctor.epydoc.markup import ParsedDocstring, ParseError
from pydoctor.epydoc.markup import plaintext
from pydoctor.stanutils import flatten, flatten_text
from twisted.web.template import tags
from crosshair.tracers import NoTracing
import copy

OPTS = Options.defaults()
OPTS.verbosity = -3

EXC = [None, ValueError, KeyError, AttributeError, IndexError, RecursionError, UnicodeError,
       lambda m: SAXParseException(m, None, None), AssertionError, TypeError, NotImplementedError, ZeroDivisionError]
NEXC = len(EXC)
PARSE_BEH = ["ok", "parseerror", "errs_only", "errs_mixed"] + list(range(1, NEXC))
WHEN = ["always", "first-call", "second-call", "summary-only"]
DOCS = ["Hello *world* L{x}", "", "one\n\ntwo <b>&amp;</b>\n    indented", "@param x: unknown\n@return: y"]
FORMATS = ["epytext", "restructuredtext", "google", "numpy", "plaintext"]
KINDS = ["function", "inherited", "class", "module", "attribute"]


class StubParsed(ParsedDocstring):
    def __init__(self, doc, beh, calls):
        super().__init__(fields=[])
        self.doc, self.beh, self.calls = doc, beh, calls

    @property
    def has_body(self):
        return True

    def to_stan(self, linker):
        self.calls["to_stan"] += 1
        e = EXC[self.beh["to_stan"]]
        w = self.beh["when"]
        fire = (w == "always") or (w == "first-call" and self.calls["to_stan"] == 1) or (w == "second-call" and self.calls["to_stan"] == 2)
        if e is not None and fire:
            self.calls["fired"] = self.calls.get("fired", 0) + 1
            raise e("boom to_stan")
        return tags.p(self.doc)

    def to_node(self):
        if self.beh["to_node"]:
            raise NotImplementedError("no node representation")
        from pydoctor.epydoc.docutils import new_document
        from docutils import nodes
        d = new_document("x")
        d += nodes.paragraph("", self.doc)
        return d


def run(beh, doc, fmt, processtypes, kind):
    opts = copy.copy(OPTS)
    opts.docformat = fmt
    opts.processtypes = processtypes
    s = model.System(opts)
    msgs = []

    def msg(section, m, thresh=0, **kw):
        msgs.append((section, m, thresh))
        if thresh < 0:
            s.violations += 1
    s.msg = msg
    if kind == "inherited":
        # the object under test shows a docstring it inherits: Derived.f overrides Base.f without a docstring of its own
        b = s.systemBuilder(s)
        b.addModuleString("class Base:\n    def f(self):\n        pass\nclass Derived(Base):\n    def f(self):\n        pass\ndef g():\n    pass\n", "m")
        b.buildModules()
        mod = s.allobjects["m"]
        s.allobjects["m.Base.f"].docstring = doc
        f = s.allobjects["m.Derived.f"]
        g = s.allobjects["m.g"]
        g.docstring = "fine"
    else:
        mod = model.Module(s, "m")
        mod.parentMod = mod
        s.addObject(mod)
        if kind == "function":
            f = model.Function(s, "f", mod)
            f.annotations = {}
        elif kind == "class":
            f = model.Class(s, "f", mod)
        elif kind == "attribute":
            f = model.Attribute(s, "f", mod)
        else:
            f = model.Module(s, "f")
            f.parentMod = f
        if kind != "module":
            f.parentMod = mod
        f.docstring = doc
        s.addObject(f)
        g = model.Function(s, "g", mod)
        g.parentMod = mod
        g.docstring = "fine"
        g.annotations = {}
        s.addObject(g)
    calls = {"to_stan": 0}

    def parser(d, errs):
        b = beh["parse"]
        if d == doc and d != "fine":
            if b == "parseerror":
                e = ParseError("bad markup", 1)
                errs.append(e)
                raise e
            if b == "errs_only":
                errs.append(ParseError("recoverable", 1, is_fatal=False))
            elif b == "errs_mixed":
                # what docutils does: problems of several severities, all recovered from (a parsed document is returned)
                errs.append(ParseError("recoverable warning one", 1, is_fatal=False))
                errs.append(ParseError("recovered error", 1, is_fatal=True))
                errs.append(ParseError("recoverable warning two", 1, is_fatal=False))
            elif b != "ok":
                raise EXC[b]("boom parse")
            return StubParsed(d, beh, calls)
        return plaintext.parse_docstring(d, errs)

    old = epydoc2stan.get_parser_by_name
    epydoc2stan.get_parser_by_name = lambda fmt_, obj=None: parser
    out = {}
    try:
        order = ["doc", "sum", "toc"] if beh["when"] != "summary-only" else ["sum", "doc", "toc"]
        for what in order:
            if what == "doc":
                out["doc"] = flatten(epydoc2stan.format_docstring(f))
            elif what == "sum":
                out["sum"] = flatten(epydoc2stan.format_summary(f))
            else:
                out["toc"] = epydoc2stan.format_toc(f)
        out["gdoc"] = flatten(epydoc2stan.format_docstring(g))
        out["gsum"] = flatten(epydoc2stan.format_summary(g))
    finally:
        epydoc2stan.get_parser_by_name = old
    out["fired"] = calls.get("fired", 0)
    return s, msgs, out, f


def visible_text(html):
    import html as _h
    import re
    return _h.unescape(re.sub(r"<[^>]+>", "", html))


def check(beh, doc, fmt, processtypes, kind):
    try:
        s, msgs, out, f = run(beh, doc, fmt, processtypes, kind)
    except Exception as e:
        note(why="exception leaves the format_* wrappers", beh=beh, doc=doc, fmt=fmt, exc=repr(e))
        return False
    parse_fatal = beh["parse"] not in ("ok", "errs_only", "errs_mixed")
    stan_fails = beh["parse"] in ("ok", "errs_only", "errs_mixed") and beh["to_stan"] != 0
    if doc == "":
        return True if "fine" in out["gdoc"] else False
    text = visible_text(out["doc"])
    if parse_fatal or (stan_fails and beh["when"] in ("always", "first-call")):
        # the complete original text is still shown as plain text
        squash = lambda t: "".join(t.split())
        if squash(doc) not in squash(text):
            note(why="original text not shown after a fatal failure", beh=beh, doc=doc, shown=text)
            return False
    nrep = sum(1 for m in msgs if m[2] < 0)
    must_report = parse_fatal or beh["parse"] in ("errs_only", "errs_mixed") or (stan_fails and out["fired"] > 0)
    if beh["parse"] == "errs_mixed":
        for descr in ("recoverable warning one", "recovered error", "recoverable warning two"):
            if not any(descr in m[1] for m in msgs if m[2] < 0):
                note(why="a problem the parser recovered from is not reported", missing=descr, beh=beh, msgs=msgs)
                return False
    if must_report and nrep < 1:
        note(why="failure not reported against the object", beh=beh, msgs=msgs)
        return False
    if must_report and not any(":" in m[1] for m in msgs if m[2] < 0):
        note(why="report does not name the object's location", beh=beh, msgs=msgs)
        return False
    owner = "m.Base.f" if kind == "inherited" else f.fullName()
    if (parse_fatal or beh["parse"] in ("errs_only", "errs_mixed")) and owner not in s.parse_errors["docstring"]:
        note(why="object missing from parse_errors", beh=beh, errors={k: sorted(v) for k, v in s.parse_errors.items()})
        return False
    # every distinct problem is reported once (the same message is not repeated for the same object)
    reps = [m[1] for m in msgs if m[2] < 0]
    if len(reps) != len(set(reps)):
        note(why="same problem reported twice", beh=beh, msgs=reps)
        return False
    # no other object is affected
    if "fine" not in out["gdoc"] or "fine" not in out["gsum"] or "m.g" in s.parse_errors["docstring"]:
        note(why="another object is affected", beh=beh, gdoc=out["gdoc"])
        return False
    return True


@harness(
    parts=lambda: [[p, w] for p in range(len(PARSE_BEH)) for w in range(len(WHEN))],
    timeout=(240, 2400), cls="F", tracing="concrete-after-choice", twin="first",
    code=["pydoctor.epydoc2stan.parse_docstring", "safe_to_stan", "format_docstring", "format_summary", "format_toc", "format_docstring_fallback", "format_summary_fallback",
          "reportErrors", "ensure_parsed_docstring", "_get_parsed_summary", "pydoctor.epydoc.markup.ParsedDocstring.get_summary/get_toc", "pydoctor.model.System.parse_errors"],
    bounds={"quick": "parser behaviour (succeeds / ParseError / recoverable errors / recovered problems of mixed severity / 11 exception classes) x to_stan behaviour (succeeds / 11 exception classes; failing always, on the first call, on the second call, or when the summary is rendered first) x to_node (succeeds / NotImplementedError) x 2 docstrings x 5 docformats x process-types on/off x object kind (function with its own docstring; method showing a docstring inherited from the base class)",
            "thorough": "same x 4 docstrings x 5 object kinds"},
    stubs=["epydoc2stan.get_parser_by_name returns a stub parser for the object under test (plaintext for the bystander object)", "the ParsedDocstring returned by the stub raises per schedule"],
    outside="the real parsers on arbitrary docstring text; to_node raising anything but NotImplementedError; hangs",
)
def h_fault_schedule(ts: int, tn: bool, di: int, fi: int, pt: bool, ki: int) -> bool:
    """
    pre: 0 <= ts < NEXC and 0 <= di < NDOC and 0 <= fi <= 4 and 0 <= ki < NKIND
    post: _
    """
    pi, wi = PART if PART is not None else [0, 0]
    ts = pick(ts, 0, NEXC - 1)
    tn = pickb(tn)
    di = pick(di, 0, NDOC - 1)
    fi = pick(fi, 0, 4)
    pt = pickb(pt)
    ki = pick(ki, 0, NKIND - 1)
    if PARSE_BEH[pi] not in ("ok", "errs_only", "errs_mixed") and (ts != 0 or tn or wi != 0):
        return True         # the stub ParsedDocstring is never built when the parser fails: one representative suffices
    if ts == 0 and wi != 0:
        return True
    with NoTracing():
        beh = {"parse": PARSE_BEH[pi], "to_stan": ts, "to_node": tn, "when": WHEN[wi]}
        ok = check(beh, DOCS[di], FORMATS[fi], pt, KINDS[ki])
    return done(ok)


NDOC = tier(2, 4)
NKIND = tier(2, 5)


# ------------------------------------------------------------------ K08b: an attribute documented by a field of its class's docstring
from pydoctor.epydoc.markup import Field as _Field


class StubParsedS(StubParsed):
    """a ParsedDocstring that provides its own summary (get_summary is part of the ParsedDocstring interface); the summary's to_stan
    follows the same failure schedule"""

    def get_summary(self):
        return StubParsed(self.doc, self.beh, self.calls)


class OkParsed(ParsedDocstring):
    """the class's own docstring: renders fine; carries one @ivar field whose body misbehaves per schedule"""

    def __init__(self, text, fields):
        super().__init__(fields=fields)
        self.text = text

    @property
    def has_body(self):
        return True

    def to_stan(self, linker):
        return tags.p(self.text)

    def to_node(self):
        from pydoctor.epydoc.docutils import new_document
        from docutils import nodes
        d = new_document("x")
        d += nodes.paragraph("", self.text)
        return d


def check_splitfield(ts, when, fmt, order, own_summary):
    opts = copy.copy(OPTS)
    opts.docformat = fmt
    s = model.System(opts)
    msgs = []
    s.msg = lambda section, m, thresh=0, **kw: msgs.append((section, m, thresh))
    calls = {"to_stan": 0}
    beh = {"parse": "ok", "to_stan": ts, "to_node": False, "when": when}
    CLS_TEXT = "Class summary stays."

    def parser(d, errs):
        if d == "CLASSDOC":
            return OkParsed(CLS_TEXT, [_Field("ivar", "x", (StubParsedS if own_summary else StubParsed)("field body text", beh, calls), 1)])
        return plaintext.parse_docstring(d, errs)

    old = epydoc2stan.get_parser_by_name
    epydoc2stan.get_parser_by_name = lambda fmt_, obj=None: parser
    try:
        b = s.systemBuilder(s)
        b.addModuleString("class K:\n    '''CLASSDOC'''\n    def __init__(self):\n        self.x = 1\ndef g():\n    '''fine'''\n", "m")
        b.buildModules()
        K, x, g = s.allobjects["m.K"], s.allobjects["m.K.x"], s.allobjects["m.g"]
        out = {}
        try:
            for what in order:
                if what == "xs":
                    out["xs"] = flatten(epydoc2stan.format_summary(x))
                elif what == "xd":
                    out["xd"] = flatten(epydoc2stan.format_docstring(x))
                elif what == "ks":
                    out["ks"] = flatten(epydoc2stan.format_summary(K))
                elif what == "kd":
                    out["kd"] = flatten(epydoc2stan.format_docstring(K))
            out["gs"] = flatten(epydoc2stan.format_summary(g))
        except Exception as e:
            note(why="exception leaves the format_* wrappers (split-field attribute)", exc=repr(e), to_stan=str(EXC[ts]), when=when, order=order)
            return False
    finally:
        epydoc2stan.get_parser_by_name = old
    ctx = dict(to_stan=getattr(EXC[ts], "__name__", str(EXC[ts])), when=when, order=order, docformat=fmt, summary_provided_by_the_parsed_docstring=own_summary)
    if CLS_TEXT not in visible_text(out["ks"]) or CLS_TEXT not in visible_text(out["kd"]):
        note(why="a failure while rendering an attribute's field body changed the documentation of ANOTHER object (its class)", class_summary=visible_text(out["ks"]), class_doc=visible_text(out["kd"])[:200], **ctx)
        return False
    if "fine" not in out["gs"]:
        note(why="bystander function affected", **ctx)
        return False
    if ts == 0 and ("field body text" not in visible_text(out["xs"]) or "field body text" not in visible_text(out["xd"])):
        note(why="healthy field body not shown", **ctx)
        return False
    # a failure met only while rendering the SUMMARY is deliberately left to the body's rendering to report (report=False in
    # format_summary); a renderer that fails on the summary of a text and not on the text itself is an artefact of the schedule
    if ts != 0 and when == "always" and "xd" in order and not any(m[2] < 0 for m in msgs):
        note(why="failure of a field body not reported", msgs=msgs, **ctx)
        return False
    return True


import itertools as _it
SF_ORDERS = [list(p) for p in _it.permutations(["xs", "xd", "ks", "kd"])]


@harness(
    parts=lambda: [[o, w] for o in range(2) for w in range(3)], timeout=(240, 900), cls="F", tracing="concrete-after-choice", twin="first",
    code=["pydoctor.epydoc2stan.extract_fields", "ensure_parsed_docstring (split field: source = parent)", "_get_parsed_summary", "format_summary", "format_summary_fallback", "safe_to_stan", "format_docstring"],
    bounds={"quick": "class whose docstring documents attribute x through an @ivar field; the field body's to_stan - and, when the parsed docstring provides its own summary, the summary's - raises one of 11 exception classes (or succeeds), always / on the first call / on the second call; summary and body of the attribute and of the class "
                     "produced in each of the 24 orders; 5 docformats", "thorough": "same"},
    stubs=["epydoc2stan.get_parser_by_name returns a stub parser: the class docstring parses to a healthy ParsedDocstring with one ivar field whose body raises per schedule"],
    outside="fields other than ivar; the real parsers",
)
def h_splitfield_faults(ts: int, fi: int, oi: int) -> bool:
    """
    pre: 0 <= ts < NEXC and 0 <= fi <= 4 and 0 <= oi < 24
    post: _
    """
    own, wi = PART if PART is not None else [1, 0]
    ts = pick(ts, 0, NEXC - 1)
    fi = pick(fi, 0, 4)
    oi = pick(oi, 0, 23)
    with NoTracing():
        ok = check_splitfield(ts, WHEN[wi], FORMATS[fi], SF_ORDERS[oi], bool(own))
    return done(ok)
