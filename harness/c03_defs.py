"""C03 - what is documented in each namespace is what Python defines there.

K03a (S/F) literal type inference (astutils.infer_type) against CPython's type() on literal values built from a table of
           leaves in container shapes.
K03b (E)   names, kinds, docstrings, async flag: generated one-module programs (statement kinds x wrappers x docstring
           layouts, module and class scope) documented by pydoctor and executed by CPython; namespaces compared.
"""
import ast
import inspect
import types

from lib.hx import harness, pick, pickb, done, tier, PART, note, known, sample

PROPERTY = "C03"
LEVEL = "exploration"
ASSUMPTIONS = [
    "CPython executing the same program text (exec) is the oracle: vars(module)/vars(class), descriptor types, __doc__ with inspect.cleandoc",
    "'defined' for the nothing-invented direction means vars() U __annotations__ (pydoctor documents annotation-only declarations on purpose)",
    "loop targets, imported helper names and names defined in functions / under `if __name__ == '__main__'` are not definitions (the statement excludes them)",
]

from pydoctor import model, astutils
from pydoctor.options import Options
from crosshair.tracers import NoTracing

OPTS = Options.defaults()
OPTS.verbosity = -3

# ------------------------------------------------------------------ K03a
LEAVES = ["1", "True", "'s'", "b'b'", "1.5", "None", "2j", "-3", "(1,)", "[1]", "{'k': 1}", "{1}", "()"]
NL = len(LEAVES)
SHAPES = ["{0}", "[{0}, {1}]", "({0}, {1})", "{{{0}, {1}}}", "{{{0}: {1}}}", "[{0}]", "({0},)", "[]", "{{}}", "[[{0}], [{1}]]", "{{{0}: [{1}]}}"]
NS = len(SHAPES)


def ann_of_value(value):
    """specification: the actual type of the value; element type when all elements share one (simple-named) type"""
    if value is None:
        return None
    name = type(value).__name__
    if isinstance(value, (dict, list, set, tuple)):
        def elem(seq):
            names = set()
            for e in seq:
                if e is None:
                    return None
                if isinstance(e, (dict, list, set, tuple)):
                    sub = ann_of_value(e)
                    if sub != type(e).__name__:
                        return None       # nested parametrised containers are not summarised
                names.add(type(e).__name__)
            return names.pop() if len(names) == 1 else None
        if isinstance(value, dict):
            k, v = elem(value.keys()), elem(value.values())
            if k is not None and v is not None:
                return "%s[%s, %s]" % (name, k, v)
            return name
        e = elem(value)
        if e is not None:
            return "%s[%s, ...]" % (name, e) if name == "tuple" else "%s[%s]" % (name, e)
    return name


def check_infer(si, a, b):
    src = SHAPES[si].format(LEAVES[a], LEAVES[b])
    try:
        value = ast.literal_eval(src)
    except Exception:
        return True          # e.g. unhashable element in a set / dict key: not a literal Python accepts
    got = astutils.infer_type(ast.parse(src, mode="eval").body)
    got_s = None if got is None else ast.unparse(got)
    want = ann_of_value(value)
    if got_s is None and want is None:
        return True
    # outer type must be the actual type of the value
    outer = None if got_s is None else got_s.split("[")[0]
    if outer != type(value).__name__:
        note(why="inferred type is not the type of the value", src=src, got=got_s, value_type=type(value).__name__)
        return False
    if got_s != want:
        # element summary: tolerated to be absent, never wrong
        if "[" in (got_s or ""):
            note(why="inferred element type is wrong", src=src, got=got_s, want=want)
            return False
    return True


@harness(
    parts=lambda: list(range(NS)), timeout=(120, 600), cls="F", tracing="concrete-after-choice", twin="first",
    code=["pydoctor.astutils.infer_type", "_annotation_for_value", "_annotation_for_elements"],
    bounds={"quick": "11 container shapes (scalar, list, tuple, set, dict, singletons, empties, nested) x 13 x 13 literal leaves (int, bool, str, bytes, float, None, complex, negative int, and small containers)", "thorough": "same"},
    outside="non-literal expressions (no inference is attempted), deeper nesting",
)
def h_infer_type(a: int, b: int) -> bool:
    """
    pre: 0 <= a < NL and 0 <= b < NL
    post: _
    """
    si = PART if PART is not None else 1
    a = pick(a, 0, NL - 1)
    b = pick(b, 0, NL - 1)
    with NoTracing():
        ok = check_infer(si, a, b)
    return done(ok)


# ------------------------------------------------------------------ K03b
DOCS = {"none": None, "one": "'''Doc.'''", "multi": "'''\n    Doc line.\n\n      indented\n    last\n    '''", "lead": "'''\n\n    Doc.\n    '''",
        # layouts on which inspect.cleandoc differs from a plain strip(): trailing blanks, an over-indented first text line, closing quotes deeper than the text
        "trail": "'''Doc. \t'''", "overindent": "'''\n        Doc over.\n    later\n    '''", "deepclose": "'''Doc.\n    more\n            '''"}
DOCKEYS = list(DOCS)


def ind(s, n=1):
    return "".join("    " * n + ln + "\n" for ln in s.splitlines())


def fdef(name, deco, doc, is_async=False, cls=False):
    d = "".join(f"@{x}\n" for x in deco)
    args = "(self)" if cls and "staticmethod" not in deco else "()"
    if cls and "classmethod" in deco:
        args = "(cls)"
    body = (DOCS[doc] + "\n" if DOCS[doc] else "") + "return 1"
    return d + ("async " if is_async else "") + f"def {name}{args}:\n" + ind(body)


STMTS = {
    "def": lambda n, doc: fdef(n, [], doc, cls=True),
    "async": lambda n, doc: fdef(n, [], doc, True, cls=True),
    "classmethod": lambda n, doc: fdef(n, ["classmethod"], doc, cls=True),
    "staticmethod": lambda n, doc: fdef(n, ["staticmethod"], doc, cls=True),
    "property": lambda n, doc: fdef(n, ["property"], doc, cls=True),
    "oldstatic": lambda n, doc: fdef(n, [], doc, cls=True).replace("(self)", "()") + f"{n} = staticmethod({n})\n",
    "oldclass": lambda n, doc: fdef(n, [], doc, cls=True).replace("(self)", "(cls)") + f"{n} = classmethod({n})\n",
    "rewrapped": lambda n, doc: fdef(n, [], doc, cls=True).replace("(self)", "(cls)") + f"{n} = staticmethod({n})\n{n} = classmethod({n})\n",
    "deco_then_wrapped": lambda n, doc: fdef(n, ["staticmethod"], doc, cls=True) + f"{n} = staticmethod({n})\n",
    "assign_twice": lambda n, doc: f"{n} = 1\n'''First doc.'''\n{n} = 2.5\n" + (DOCS["one"] + "\n" if doc != "none" else ""),
    "assign": lambda n, doc: f"{n} = 1\n" + (DOCS["one"] + "\n" if doc != "none" else ""),
    "annassign": lambda n, doc: f"{n}: int = 1\n" + (DOCS["one"] + "\n" if doc != "none" else ""),
    "annonly": lambda n, doc: f"{n}: int\n",
    "class": lambda n, doc: f"class {n}:\n" + ind((DOCS[doc] + "\n" if DOCS[doc] else "") + "pass"),
    "exc": lambda n, doc: f"class {n}(ValueError):\n" + ind((DOCS[doc] + "\n" if DOCS[doc] else "") + "pass"),
    "exc_mixin": lambda n, doc: f"class Mix_{n}:\n    pass\nclass {n}(ValueError, Mix_{n}):\n" + ind((DOCS[doc] + "\n" if DOCS[doc] else "") + "pass"),
    "exc_sub": lambda n, doc: f"class Base_{n}(KeyError):\n    pass\nclass {n}(Base_{n}):\n" + ind((DOCS[doc] + "\n" if DOCS[doc] else "") + "pass"),
    "nesteddef": lambda n, doc: f"def outer_{n}(self):\n" + ind(f"def {n}(): pass\nreturn {n}"),
    "tupleassign": lambda n, doc: f"{n}, {n}_b = 1, 2\n",
    "nestedclass": lambda n, doc: f"class {n}:\n" + ind(f"class Inner:\n" + ind((DOCS[doc] + "\n" if DOCS[doc] else "") + "def im(self): pass")),
}
SKEYS = list(STMTS)
CLASS_ONLY = ("classmethod", "staticmethod", "property", "oldstatic", "oldclass", "rewrapped", "deco_then_wrapped")
WRAP = {
    "plain": lambda s: s,
    "if": lambda s: "if True:\n" + ind(s),
    "try": lambda s: "try:\n" + ind(s) + "except Exception:\n    pass\n",
    "trystar": lambda s: "try:\n" + ind(s) + "except* Exception:\n    pass\n",
    "while": lambda s: "_n = 0\nwhile _n < 1:\n" + ind("_n += 1\n" + s),
    "with": lambda s: "import contextlib\nwith contextlib.suppress(Exception):\n" + ind(s),
    "for": lambda s: "for _i in (1,):\n" + ind(s),
    "main": lambda s: "if __name__ == '__main__':\n" + ind(s),
    "notmain": lambda s: "if __name__ != '__main__':\n" + ind(s),
    "elifmain": lambda s: "if __name__ == 'other':\n    pass\nif not (__name__ == '__main__'):\n" + ind(s),
}
WKEYS = list(WRAP)


def pykind(owner_vars, name, in_class):
    v = owner_vars[name]
    if isinstance(v, classmethod):
        return "Class Method"
    if isinstance(v, staticmethod):
        return "Static Method"
    if isinstance(v, property):
        return "Property"
    if isinstance(v, type):
        return "Exception" if issubclass(v, BaseException) else "Class"
    if isinstance(v, types.FunctionType):
        return "Method" if in_class else "Function"
    return "var"


def pdkind(o):
    K = model.DocumentableKind
    m = {K.CLASS_METHOD: "Class Method", K.STATIC_METHOD: "Static Method", K.PROPERTY: "Property", K.CLASS: "Class", K.EXCEPTION: "Exception",
         K.METHOD: "Method", K.FUNCTION: "Function"}
    return m.get(o.kind, "var")


def attribute_docs(src, scope):
    """{variable name: docstring} by the attribute-docstring convention: the string statement that directly follows an assignment to a
    single name documents it; a later documented assignment replaces an earlier one.  Taken bodies (if/try/with/for/while) are read in
    place; the excluded `if __name__ == '__main__'` body is not."""
    tree = ast.parse(src)
    body = tree.body
    if scope == "class":
        body = next(n for n in tree.body if isinstance(n, ast.ClassDef) and n.name == "Host").body
    docs = {}

    def scan(stmts):
        prev = None
        for st in stmts:
            if isinstance(st, ast.Expr) and isinstance(st.value, ast.Constant) and isinstance(st.value.value, str) and prev is not None:
                docs[prev] = inspect.cleandoc(st.value.value)
                prev = None
                continue
            prev = None
            if isinstance(st, ast.Assign) and len(st.targets) == 1 and isinstance(st.targets[0], ast.Name):
                prev = st.targets[0].id
            elif isinstance(st, ast.AnnAssign) and isinstance(st.target, ast.Name):
                prev = st.target.id
            elif isinstance(st, ast.If):
                t = ast.unparse(st.test)
                if t == "__name__ == '__main__'":
                    continue
                if t in ("True", "__name__ != '__main__'", "not __name__ == '__main__'"):
                    scan(st.body)
            elif isinstance(st, (ast.Try, ast.With, ast.For, ast.While)) or type(st).__name__ == "TryStar":
                scan(st.body)
    scan(body)
    return docs


def check_program(src, scope, redefinition=False):
    sample(program=src, scope=scope)
    ns = {"__name__": "m"}
    exec(compile(src, "<m>", "exec"), ns)
    s = model.System(OPTS)
    s.msg = lambda *a, **k: None
    b = s.systemBuilder(s)
    b.addModuleString(src, "m")
    b.buildModules()
    if scope == "module":
        pyns = {k: v for k, v in ns.items() if not k.startswith("__") and not isinstance(v, types.ModuleType) and k != "_i"}
        anns = set(ns.get("__annotations__", {}))
        ctx = s.allobjects["m"]
    else:
        pyns = {k: v for k, v in vars(ns["Host"]).items() if not k.startswith("__") and not isinstance(v, types.ModuleType) and k != "_i"}
        anns = set(vars(ns["Host"]).get("__annotations__", {}))
        ctx = s.allobjects["m.Host"]
    pd = dict(ctx.contents)
    attrdocs = attribute_docs(src, scope)
    for k in sorted(set(pyns) | set(pd)):
        if k in ("contextlib", "_i"):
            continue          # helper names of the wrappers (an import, a loop target): not definitions
        if k not in pd:
            note(why="defined by Python but not documented", name=k, scope=scope, src=src)
            return False
        if k not in pyns:
            if k in anns:
                continue
            note(why="documented but not defined by Python", name=k, scope=scope, src=src)
            return False
        pk, dk = pykind(pyns, k, scope == "class"), pdkind(pd[k])
        if pk != dk:
            note(why="kind differs from what the interpreter gives", name=k, python=pk, pydoctor=dk, src=src)
            return False
        v = pyns[k]
        f = v.__func__ if isinstance(v, (classmethod, staticmethod)) else (v.fget if isinstance(v, property) else v)
        if pk != "var":
            want = inspect.cleandoc(f.__doc__) if f.__doc__ else None
            got = pd[k].docstring
            if want != got:
                note(why="docstring differs from the interpreter's (after indentation cleaning)", name=k, python=want, pydoctor=got, src=src)
                return False
            if isinstance(pd[k], model.Function) and pd[k].is_async != inspect.iscoroutinefunction(f):
                note(why="async flag differs", name=k, src=src)
                return False
        if pk == "var" and isinstance(pd[k], model.Attribute):
            want = attrdocs.get(k)
            if pd[k].docstring != want:
                note(why="attribute docstring differs from the string that follows the (last documented) assignment", name=k, expected=want, pydoctor=pd[k].docstring, src=src)
                return False
        if pk in ("Class", "Exception"):
            # one level down: nested definitions of the class
            inner_py = {n for n in vars(v) if not n.startswith("__")}
            inner_pd = set(pd[k].contents)
            if inner_py != inner_pd:
                note(why="nested class namespace differs", name=k, python=sorted(inner_py), pydoctor=sorted(inner_pd), src=src)
                return False
    # nothing appears twice: contents is a mapping; superseded duplicates would be registered as 'name 0'
    if not redefinition and any(" " in k for k in s.allobjects):
        note(why="a definition is documented twice", keys=[k for k in s.allobjects if " " in k], src=src)
        return False
    return True


def build_program(scope, k1, k2, w1, doc):
    if scope == "module" and (k1 in CLASS_ONLY or k2 in CLASS_ONLY):
        return None
    s1 = STMTS[k1]("n1", doc)
    s2 = STMTS[k2]("n2", "one")
    if scope == "module":
        s1 = s1.replace("(self)", "()").replace("(cls)", "()")
        s2 = s2.replace("(self)", "()").replace("(cls)", "()")
        return WRAP[w1](s1) + s2
    return "class Host:\n" + ind(WRAP[w1](s1) + s2)


NK = len(SKEYS)
NW = len(WKEYS)


@harness(
    parts=lambda: [[sc, i] for sc in range(2) for i in range(NK)], timeout=(240, 1800), cls="E", tracing="concrete-after-choice", twin="first",
    code=["pydoctor.astbuilder.ModuleVistor.visit_If/visit_ClassDef/_handleFunctionDef/_handleOldSchoolMethodDecoration/_handlePropertyDef/_handleAssignment*/visit_Expr/visit_Try/visit_With/visit_For",
          "pydoctor.astutils.get_docstring_node/extract_docstring/NodeVisitor.get_children", "pydoctor.model.is_exception/defaultPostProcess"],
    bounds={"quick": "two-statement programs: 20 statement kinds (def, async def, a variable assigned and documented twice, a method wrapped twice in the old style, a decorated static method wrapped again, exception class with a mixin listed after the builtin exception, exception class through an intermediate class, classmethod, staticmethod, property, old-style staticmethod()/classmethod() wrapping, assignment, annotated assignment, annotation only, class, exception class, def nested in a def, tuple assignment, class with nested class) for each of the two statements x 10 wrappers of the first (plain, if, try, try with except*, while, with, for, `if __name__ == '__main__'`, `if __name__ != '__main__'`, `if not (__name__ == '__main__')`) x 7 docstring layouts (none, one line, multi-line with relative indentation, leading blank line, trailing blanks, over-indented first text line, closing quotes deeper than the text) x module / class scope",
            "thorough": "same"},
    outside="multi-module packages (C04/C07), metaclasses, __slots__, conditional redefinition (C02), except/finally bodies",
)
def h_definitions(k2: int, w1: int, doc: int) -> bool:
    """
    pre: 0 <= k2 < NK and 0 <= w1 < NW and 0 <= doc <= 6
    post: _
    """
    sc, k1 = PART if PART is not None else [1, 0]
    k2 = pick(k2, 0, NK - 1)
    w1 = pick(w1, 0, NW - 1)
    doc = pick(doc, 0, 6)
    with NoTracing():
        src = build_program(["module", "class"][sc], SKEYS[k1], SKEYS[k2], WKEYS[w1], DOCKEYS[doc])
        if src is None:
            return True
        ok = check_program(src, ["module", "class"][sc])
    return done(ok)


# ------------------------------------------------------------------ the same name defined twice in one namespace (seed C03-6)
RKEYS = ["def", "async", "classmethod", "staticmethod", "property", "class"]
RWRAP = ["plain", "if", "try"]


def build_redefinition(scope, k1, k2, w1, doc1, doc2):
    if scope == "module" and (k1 in CLASS_ONLY or k2 in CLASS_ONLY):
        return None
    s1 = STMTS[k1]("n1", doc1)
    s2 = STMTS[k2]("n1", doc2)
    if scope == "module":
        s1 = s1.replace("(self)", "()").replace("(cls)", "()")
        s2 = s2.replace("(self)", "()").replace("(cls)", "()")
        return WRAP[w1](s1) + s2
    return "class Host:\n" + ind(WRAP[w1](s1) + s2)


@harness(
    parts=lambda: [[sc, i] for sc in range(2) for i in range(len(RKEYS))], timeout=(240, 900), cls="E", tracing="concrete-after-choice", twin="first",
    code=["pydoctor.astbuilder.ModuleVistor._handleFunctionDef/_handlePropertyDef/visit_ClassDef", "pydoctor.model.System.handleDuplicate", "pydoctor.astutils.get_docstring_node"],
    bounds={"quick": "one name bound twice by def/class statements in one namespace: 6 kinds (def, async def, classmethod, staticmethod, property, class) for each of the two definitions x 3 wrappers of the first (plain, if, try) x docstring of the first in {none, one line, multi-line} x docstring of the second in {none, one line} x module / class scope; the object documented under the name must have the kind, docstring and async flag of the LAST definition, as in CPython",
            "thorough": "same"},
    outside="redefinition by assignment, redefinition under a false condition, overloads",
)
def h_redefinition(k2: int, w1: int, doc1: int, doc2: int) -> bool:
    """
    pre: 0 <= k2 <= 5 and 0 <= w1 <= 2 and 0 <= doc1 <= 2 and 0 <= doc2 <= 1
    post: _
    """
    sc, k1 = PART if PART is not None else [1, 0]
    k2 = pick(k2, 0, 5)
    w1 = pick(w1, 0, 2)
    doc1 = pick(doc1, 0, 2)
    doc2 = pick(doc2, 0, 1)
    with NoTracing():
        src = build_redefinition(["module", "class"][sc], RKEYS[k1], RKEYS[k2], RWRAP[w1], DOCKEYS[doc1], DOCKEYS[doc2])
        if src is None:
            return True
        ok = check_program(src, ["module", "class"][sc], redefinition=True)
    return done(ok)
